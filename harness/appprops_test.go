package harness

import (
	"strings"
	"testing"
)

// send an NFT held by user k of chain i to user rk of chain d (real class), track it and relay it
func (h *AppH) nftHop(o *tokOracle, i, k int, mclass, id string, d int, receiver, relay string) *flight {
	real := mclass
	if strings.HasPrefix(mclass, "tibc-") {
		real = h.realClass(i, "NFT", strings.TrimPrefix(mclass, "tibc-"))
	}
	if !h.NftSend(i, k, real, id, receiver, h.names[d], relay) {
		return nil
	}
	f := o.trackSend(i, "NFT", mclass, id, 1, h.addr(i, k), 0)
	o.settle(f)
	return f
}

func (h *AppH) mtHop(o *tokOracle, i, k int, mclass, id string, amt uint64, d int, receiver, relay string) *flight {
	real := mclass
	if strings.HasPrefix(mclass, "tibc-") {
		real = h.realClass(i, "MT", strings.TrimPrefix(mclass, "tibc-"))
	}
	var pre uint64
	for _, b := range h.Ledger(i).MtBal {
		if b.Class == mclass && b.ID == id && b.Owner == h.addr(i, k) {
			pre = b.Amount
		}
	}
	if !h.MtSend(i, k, real, id, receiver, h.names[d], relay, amt) {
		return nil
	}
	f := o.trackSend(i, "MT", mclass, id, amt, h.addr(i, k), pre)
	o.settle(f)
	return f
}

func vclass(mod string, base string, chains ...string) string {
	return "tibc-" + strings.ToLower(mod) + "/" + strings.Join(chains, "/") + "/" + base
}

func mintNative(h *AppH, o *tokOracle, i, k int, class, id string) {
	if strings.Contains(class, "/") {
		o.odd = true
	}
	h.NftIssue(i, k, class)
	if h.NftMint(i, k, class, id, "uri:"+id, k) {
		o.natives[itoa(i)+"|"+class+"|"+id] = true
	}
}

func itoa(i int) string { return string(rune('0' + i)) }

// ---- C04 ---------------------------------------------------------------------------------------

func famC04() []appFamily {
	return []appFamily{
		{"tour-A-B-C-B-A-two-users", func(h *AppH, o *tokOracle) {
			A, B, C := h.names[0], h.names[1], h.names[2]
			mintNative(h, o, 0, 1, "kitty", "tom")
			mintNative(h, o, 0, 2, "doggo", "tom") // equal id in another class
			h.nftHop(o, 0, 1, "kitty", "tom", 1, h.addr(1, 2), "")
			h.nftHop(o, 0, 2, "doggo", "tom", 1, h.addr(1, 2), "")
			h.NftMove(1, 2, h.realClass(1, "NFT", "nft/"+A+"/"+B+"/kitty"), "tom", 3)
			h.NftSend(1, 2, h.realClass(1, "NFT", "nft/"+A+"/"+B+"/kitty"), "tom", h.addr(2, 1), C, "") // no longer the owner
			h.nftHop(o, 1, 3, vclass("NFT", "kitty", A, B), "tom", 2, h.addr(2, 1), "")
			h.nftHop(o, 2, 1, vclass("NFT", "kitty", A, B, C), "tom", 1, h.addr(1, 1), "")
			h.nftHop(o, 1, 1, vclass("NFT", "kitty", A, B), "tom", 0, h.addr(0, 3), "") // returns to another user
			h.nftHop(o, 1, 2, vclass("NFT", "doggo", A, B), "tom", 0, h.addr(0, 2), "")
		}},
		{"non-owners-try-every-direction", func(h *AppH, o *tokOracle) {
			// whoever is not the holder must not be able to move a token: towards another chain,
			// back towards the origin (voucher burn), or onwards; a send that is wrongly accepted is
			// relayed like any other, so that the holder-count oracle sees the consequence
			A, B, C := h.names[0], h.names[1], h.names[2]
			mintNative(h, o, 0, 1, "kitty", "tom")
			h.nftHop(o, 0, 2, "kitty", "tom", 1, h.addr(1, 2), "") // user 2 of A does not own it
			h.nftHop(o, 0, 1, "kitty", "tom", 1, h.addr(1, 2), "") // owner: A -> B, voucher held by user 2 of B
			v := vclass("NFT", "kitty", A, B)
			h.nftHop(o, 1, 1, v, "tom", 0, h.addr(0, 2), "") // user 1 of B: back towards the origin, to an accomplice on A
			h.nftHop(o, 1, 3, v, "tom", 0, h.addr(0, 3), "") // user 3 of B: the same
			h.nftHop(o, 1, 1, v, "tom", 2, h.addr(2, 1), "") // user 1 of B: onwards to C
			h.nftHop(o, 0, 1, "kitty", "tom", 1, h.addr(1, 1), "") // the former owner on A: it is in escrow now
			h.nftHop(o, 1, 2, v, "tom", 2, h.addr(2, 2), "")       // holder: B -> C
			v2 := vclass("NFT", "kitty", A, B, C)
			h.nftHop(o, 1, 2, v, "tom", 0, h.addr(0, 2), "")  // former holder on B: gone
			h.nftHop(o, 2, 1, v2, "tom", 1, h.addr(1, 1), "") // user 1 of C is not the holder
			h.nftHop(o, 2, 2, v2, "tom", 1, h.addr(1, 2), "") // holder: C -> B
			h.nftHop(o, 1, 2, v, "tom", 0, h.addr(0, 1), "")  // holder: B -> A, home
		}},
		{"relayed-tour-and-return", func(h *AppH, o *tokOracle) {
			A, B, C := h.names[0], h.names[1], h.names[2]
			h.SetRules(1, []string{"*,*,*"})
			mintNative(h, o, 0, 1, "kitty", "tom")
			h.nftHop(o, 0, 1, "kitty", "tom", 2, h.addr(2, 1), B)
			h.nftHop(o, 2, 1, vclass("NFT", "kitty", A, C), "tom", 0, h.addr(0, 1), B)
		}},
		{"prefix-class-without-slash", func(h *AppH, o *tokOracle) {
			A, B := h.names[0], h.names[1]
			mintNative(h, o, 0, 1, "nftcats", "cat1")
			h.nftHop(o, 0, 1, "nftcats", "cat1", 1, h.addr(1, 1), "")
			h.nftHop(o, 1, 1, vclass("NFT", "nftcats", A, B), "cat1", 0, h.addr(0, 1), "")
		}},
		{"D4-forged-voucher-path-as-native-class", func(h *AppH, o *tokOracle) {
			A, B := h.names[0], h.names[1]
			mintNative(h, o, 0, 1, "kitty", "tom")
			h.nftHop(o, 0, 1, "kitty", "tom", 1, h.addr(1, 1), "") // genuine: kitty/tom escrowed on A, voucher on B
			forged := "nft/" + A + "/" + B + "/kitty"
			mintNative(h, o, 1, 3, forged, "tom") // a native class on B that looks like the voucher path
			h.nftHop(o, 1, 3, forged, "tom", 0, h.addr(0, 3), "") // claims the escrowed original
		}},
		{"D4-native-class-with-slash-round-trip", func(h *AppH, o *tokOracle) {
			A, B := h.names[0], h.names[1]
			mintNative(h, o, 0, 1, "art/cats", "cat1")
			h.nftHop(o, 0, 1, "art/cats", "cat1", 1, h.addr(1, 1), "")
			h.nftHop(o, 1, 1, vclass("NFT", "art/cats", A, B), "cat1", 0, h.addr(0, 1), "")
		}},
	}
}

func TestC04(t *testing.T) {
	runAppProperty(t, "C04", []string{"C04:"}, famC04(), tierN(3, 60),
		tokCfg{Ops: 45, NFT: true, BadRecv: 10, Relay: true, OddClass: true},
		"directed: tours A-B-C-B-A with two users and equal ids in different classes, relayed tour, class with the path prefix, forged voucher-path class, class with '/'; random: seeded NFT histories (issue/mint/move/burn/transfer/relay with replays, 10% invalid receivers, odd classes) on 3 real chains; oracle after every 5 steps: every native NFT has exactly one holder; non-trivial = history with accepted and rejected steps")
}

// ---- C05 ---------------------------------------------------------------------------------------

func famC05() []appFamily {
	return []appFamily{
		{"partial-sends-returns-and-extreme-amounts", func(h *AppH, o *tokOracle) {
			A, B, C := h.names[0], h.names[1], h.names[2]
			cls, _ := h.MtIssue(0, 1)
			id, _ := h.MtMintNew(0, 1, cls, ^uint64(0), 1) // 2^64-1
			o.mtMinted["0|"+cls+"|"+id] = ^uint64(0)
			h.MtMint(0, 1, cls, id, 1, 1) // supply overflow refused
			h.mtHop(o, 0, 1, cls, id, 1<<63, 1, h.addr(1, 1), "")
			h.mtHop(o, 0, 1, cls, id, 1<<63-1, 1, h.addr(1, 2), "") // everything is on B now, two holders
			h.mtHop(o, 0, 1, cls, id, 1, 1, h.addr(1, 1), "")       // nothing left
			v := vclass("MT", cls, A, B)
			h.MtMove(1, 1, h.realClass(1, "MT", "mt/"+A+"/"+B+"/"+cls), id, 5, 2)
			h.mtHop(o, 1, 2, v, id, 1<<63+4, 2, h.addr(2, 1), "") // on to C
			h.mtHop(o, 2, 1, vclass("MT", cls, A, B, C), id, 7, 1, h.addr(1, 3), "")
			h.mtHop(o, 1, 3, v, id, 7, 0, h.addr(0, 2), "")
			h.mtHop(o, 1, 1, v, id, 1<<63-5, 0, "bad-receiver", "") // error ack, refund
			h.mtHop(o, 1, 1, v, id, 1<<63-5, 0, h.addr(0, 2), "")   // overflow on the receiver side? (7 + 2^63-5 fits)
			h.MtBurn(0, 2, cls, id, 3)
			o.mtMinted["0|"+cls+"|"+id] -= 3
		}},
		{"non-holders-and-overdrafts-every-direction", func(h *AppH, o *tokOracle) {
			A, B, C := h.names[0], h.names[1], h.names[2]
			cls, _ := h.MtIssue(0, 1)
			id, _ := h.MtMintNew(0, 1, cls, 1000, 1)
			o.mtMinted["0|"+cls+"|"+id] = 1000
			h.mtHop(o, 0, 2, cls, id, 10, 1, h.addr(1, 2), "")   // user 2 of A holds nothing
			h.mtHop(o, 0, 1, cls, id, 1001, 1, h.addr(1, 2), "") // more than held
			h.mtHop(o, 0, 1, cls, id, 600, 1, h.addr(1, 2), "")
			v := vclass("MT", cls, A, B)
			h.mtHop(o, 1, 1, v, id, 5, 0, h.addr(0, 2), "")   // user 1 of B holds no vouchers: back towards the origin
			h.mtHop(o, 1, 2, v, id, 601, 0, h.addr(0, 2), "") // holder, one unit more than held, back
			h.mtHop(o, 1, 3, v, id, 1, 2, h.addr(2, 1), "")   // non-holder, onwards
			h.mtHop(o, 1, 2, v, id, 601, 2, h.addr(2, 1), "") // holder, more than held, onwards
			h.mtHop(o, 1, 2, v, id, 150, 2, "bad-receiver", "") // forwarded voucher refused on C: the refund on B unlocks from escrow, it must not mint
			h.mtHop(o, 1, 2, v, id, 200, 2, h.addr(2, 1), "")   // holder: B -> C
			v2 := vclass("MT", cls, A, B, C)
			h.mtHop(o, 2, 1, v2, id, 20, 1, " ", "") // returning voucher refused on B: the refund on C mints again
			h.mtHop(o, 2, 2, v2, id, 1, 1, h.addr(1, 1), "")   // non-holder on C, back
			h.mtHop(o, 2, 1, v2, id, 201, 1, h.addr(1, 1), "") // holder, more than held
			h.mtHop(o, 2, 1, v2, id, 200, 1, h.addr(1, 3), "") // holder: everything back to B (another user)
			h.mtHop(o, 1, 3, v, id, 200, 0, h.addr(0, 3), "")
			h.mtHop(o, 1, 2, v, id, 400, 0, h.addr(0, 1), "")
			h.mtHop(o, 1, 2, v, id, 1, 0, h.addr(0, 1), "") // nothing left on B
		}},
		{"second-id-and-relay", func(h *AppH, o *tokOracle) {
			A, B, C := h.names[0], h.names[1], h.names[2]
			_ = C
			h.SetRules(1, []string{"*,*,*"})
			cls, _ := h.MtIssue(0, 2)
			id1, _ := h.MtMintNew(0, 2, cls, 100, 2)
			id2, _ := h.MtMintNew(0, 2, cls, 50, 3)
			o.mtMinted["0|"+cls+"|"+id1] = 100
			o.mtMinted["0|"+cls+"|"+id2] = 50
			h.mtHop(o, 0, 2, cls, id1, 30, 2, h.addr(2, 1), B)
			h.mtHop(o, 0, 3, cls, id2, 50, 2, h.addr(2, 1), B)
			h.mtHop(o, 2, 1, vclass("MT", cls, A, h.names[2]), id1, 10, 0, h.addr(0, 1), B)
			h.mtHop(o, 2, 1, vclass("MT", cls, A, h.names[2]), id2, 50, 0, " ", B) // refund through the relay
		}},
	}
}

func TestC05(t *testing.T) {
	runAppProperty(t, "C05", []string{"C05:"}, famC05(), tierN(3, 60),
		tokCfg{Ops: 45, MT: true, BadRecv: 15, Relay: true},
		"directed: amounts 1, 2^63, 2^64-1, supply overflow, several holders, two ids, returns, refunds, relay; random: seeded MT histories; oracle after every 5 steps: per chain supply = sum of balances, and user-held + in-flight = minted - burned for every native MT; non-trivial = history with accepted and rejected steps")
}

// ---- C06 ---------------------------------------------------------------------------------------

func famC06() []appFamily {
	var fams []appFamily
	for _, relayed := range []bool{false, true} {
		relayed := relayed
		name := "direct"
		if relayed {
			name = "relayed"
		}
		fams = append(fams, appFamily{"nft-every-receive-failure-" + name, func(h *AppH, o *tokOracle) {
			A, B, C := h.names[0], h.names[1], h.names[2]
			_ = A
			rel := ""
			dst := 1
			if relayed {
				h.SetRules(1, []string{"*,*,*"})
				rel, dst = B, 2
			}
			_ = C
			mintNative(h, o, 0, 1, "kitty", "tom")
			for _, bad := range []string{"not-an-address", "", " ", "cosmoz1xyz"} {
				h.nftHop(o, 0, 1, "kitty", "tom", dst, bad, rel)
			}
			// voucher id already present on the receiving side: deliver once, then mint the same native again is impossible;
			// instead the return trip with a bad receiver (escrow stays, voucher re-minted to the sender)
			h.nftHop(o, 0, 1, "kitty", "tom", dst, h.addr(dst, 1), rel)
			v := vclass("NFT", "kitty", h.names[0], h.names[dst])
			h.nftHop(o, dst, 1, v, "tom", 0, "bogus", rel)
			h.nftHop(o, dst, 1, v, "tom", 0, h.addr(0, 2), rel)
		}})
		fams = append(fams, appFamily{"mt-every-receive-failure-" + name, func(h *AppH, o *tokOracle) {
			B := h.names[1]
			rel := ""
			dst := 1
			if relayed {
				h.SetRules(1, []string{"*,*,*"})
				rel, dst = B, 2
			}
			cls, _ := h.MtIssue(0, 1)
			id, _ := h.MtMintNew(0, 1, cls, 1000, 1)
			o.mtMinted["0|"+cls+"|"+id] = 1000
			for _, bad := range []string{"not-an-address", "", "cosmoz1xyz"} {
				h.mtHop(o, 0, 1, cls, id, 10, dst, bad, rel)
			}
			h.mtHop(o, 0, 1, cls, id, 400, dst, h.addr(dst, 1), rel)
			v := vclass("MT", cls, h.names[0], h.names[dst])
			h.mtHop(o, dst, 1, v, id, 150, 0, "bogus", rel)
			h.mtHop(o, dst, 1, v, id, 400, 0, h.addr(0, 2), rel)
		}})
	}
	fams = append(fams, appFamily{"three-hop-round-trip", func(h *AppH, o *tokOracle) {
		A, B, C := h.names[0], h.names[1], h.names[2]
		mintNative(h, o, 0, 1, "kitty", "tom")
		h.nftHop(o, 0, 1, "kitty", "tom", 1, h.addr(1, 1), "")
		h.nftHop(o, 1, 1, vclass("NFT", "kitty", A, B), "tom", 2, h.addr(2, 1), "")
		h.nftHop(o, 2, 1, vclass("NFT", "kitty", A, B, C), "tom", 0, h.addr(0, 2), "") // A -> B -> C -> A: third hop away again
		h.nftHop(o, 0, 2, vclass("NFT", "kitty", A, B, C, A), "tom", 2, h.addr(2, 2), "")
		h.nftHop(o, 2, 2, vclass("NFT", "kitty", A, B, C), "tom", 1, h.addr(1, 2), "")
		h.nftHop(o, 1, 2, vclass("NFT", "kitty", A, B), "tom", 0, h.addr(0, 3), "")
		// the original is back in its original class; every voucher collection is empty
		for x := range h.chains {
			for _, tk := range h.Ledger(x).NftTokens {
				if strings.HasPrefix(tk.Class, "tibc-") {
					o.fail("C06:voucher-left-after-round-trip", "a voucher still exists after the asset was returned hop by hop", map[string]any{"chain": x, "token": tk})
				}
				if x == 0 && tk.Class == "kitty" && tk.Owner != h.addr(0, 3) {
					o.fail("C06:round-trip-wrong-owner", "the original is not held by the final receiver", map[string]any{"token": tk})
				}
			}
		}
	}})
	return fams
}

func TestC06(t *testing.T) {
	runAppProperty(t, "C06", []string{"C06:"}, famC06(), tierN(3, 60),
		tokCfg{Ops: 45, NFT: true, MT: true, BadRecv: 35, Relay: true},
		"directed: every receive-side failure (blank / malformed / non-bech32 receiver) for NFT and MT, direct and through a relay chain, away and on the return trip; three-hop tour returned hop by hop; random: seeded histories with 35% invalid receivers; oracles: holdings after the error acknowledgement = holdings before the send, refunds never fail, no voucher left after a full return; non-trivial = history with accepted and rejected steps")
}

// ---- C19 ---------------------------------------------------------------------------------------

func famC19() []appFamily {
	return append(famC19Base(), appFamily{"request-in-a-discarded-branch-leaves-no-trace", func(h *AppH, o *tokOracle) {
		// a routing-rule change that succeeds inside a governance proposal whose later message fails
		// (x/gov discards the branch): afterwards the relay chain must treat traffic as before
		A, B, C := h.names[0], h.names[1], h.names[2]
		h.SetRules(1, []string{A + "," + C + ",NFT"})
		h.SetRulesDiscarded(1, []string{"*,*,*"})
		p := h.sendOK(0, Pkt{1, A, C, B, "tibcmock", "~not-whitelisted"})
		h.hopRecv(1, 0, p) // refused by the relay chain: receipt + error acknowledgement, nothing forwarded
		h.SetRulesDiscarded(1, []string{})
		h.SetRulesDiscarded(1, []string{A + "," + C + ",tibcmock"})
		q := h.sendOK(0, Pkt{2, A, C, B, "tibcmock", "~still-not-whitelisted"})
		h.hopRecv(1, 0, q)
		h.hopAck(0, 1, p, unauthAck)
	}})
}

func famC19Base() []appFamily {
	return []appFamily{
		{"failing-messages-of-every-kind", func(h *AppH, o *tokOracle) {
			A, B, C := h.names[0], h.names[1], h.names[2]
			_ = C
			mintNative(h, o, 0, 1, "kitty", "tom")
			h.NftSend(0, 2, "kitty", "tom", h.addr(1, 1), B, "")         // not the owner
			h.NftSend(0, 1, "kitty", "nosuch", h.addr(1, 1), B, "")      // unknown token
			h.NftSend(0, 1, "nosuchclass", "tom", h.addr(1, 1), B, "")   // unknown class
			h.NftSend(0, 1, "kitty", "tom", h.addr(1, 1), A, "")         // destination = this chain
			h.NftSend(0, 1, "kitty", "tom", h.addr(1, 1), "nowhere99", "") // unknown destination: token must not stay locked
			h.NftSend(0, 1, "kitty", "tom", h.addr(1, 1), B, "norelay99")  // unknown relay
			h.NftSend(0, 1, "tibc-ABCD", "tom", h.addr(1, 1), B, "")       // voucher class without trace
			cls, _ := h.MtIssue(0, 1)
			id, _ := h.MtMintNew(0, 1, cls, 10, 1)
			o.mtMinted["0|"+cls+"|"+id] = 10
			h.MtSend(0, 1, cls, id, h.addr(1, 1), B, "", 11)            // more than held
			h.MtSend(0, 1, cls, id, h.addr(1, 1), "nowhere99", "", 5)   // unknown destination: units must not stay locked
			h.MtSend(0, 2, cls, id, h.addr(1, 1), B, "", 1)             // holds nothing
			// the MT counterparts of the failing NFT sends above (added after the statement-coverage audit:
			// no generated input reached these refusal branches of SendMtTransfer)
			h.MtSend(0, 1, "nosuchclass", id, h.addr(1, 1), B, "", 1)   // unknown class
			h.MtSend(0, 1, cls, "nosuchid", h.addr(1, 1), B, "", 1)     // unknown multi-token
			h.MtSend(0, 1, cls, id, h.addr(1, 1), A, "", 1)             // destination = this chain
			h.MtSend(0, 1, cls, id, h.addr(1, 1), B, "norelay99", 1)    // unknown relay
			h.MtSend(0, 1, "tibc-ABCD", id, h.addr(1, 1), B, "", 1)     // voucher class without trace
			h.MtMove(0, 2, cls, id, 1, 1)
			h.MtBurn(0, 1, cls, id, 11)
			f := h.nftHop(o, 0, 1, "kitty", "tom", 1, "bad", "") // error-acked receive (oracle compares token state)
			_ = f
			h.mtHop(o, 0, 1, cls, id, 4, 1, "", "")
			// replayed and altered relayer messages on the way
			if h.NftSend(0, 1, "kitty", "tom", h.addr(1, 1), B, "") {
				fl := o.trackSend(0, "NFT", "kitty", "tom", 1, h.addr(0, 1), 0)
				p := fl.P
				h.UpdateClient(1, 0)
				ht := h.latestKnown(1, 0)
				q := p
				q.Data = p.Data + "x"
				h.Recv(1, q, ProofSpec{0, commitKey(p)}, ht)
				h.Recv(1, p, ProofSpec{0, ackKey(p)}, ht)
				h.Recv(1, p, ProofSpec{-1, ""}, ht)
				o.settle(fl)
				h.Recv(1, p, ProofSpec{0, commitKey(p)}, ht)
			}
		}},
	}
}

func TestC19(t *testing.T) {
	runAppProperty(t, "C19", []string{"C19:"}, famC19(), tierN(3, 60),
		tokCfg{Ops: 50, NFT: true, MT: true, BadRecv: 30, Relay: true},
		"directed: every failing send kind of both token apps, failing user transactions, altered/replayed relayer messages, error-acknowledged receives; random: seeded mixed histories with 30% invalid receivers; oracles: byte-identical tibc/nft/mt/NFT/MT stores after every failing message, identical ownership/balances/supplies after every error-acknowledged receive; non-trivial = history with accepted and rejected steps")
}
