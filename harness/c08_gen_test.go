package harness

// C08 generators: prover states, base (valid) scenarios, single perturbations, random compositions.

import (
	"bytes"
	"crypto/sha256"
	"encoding/binary"
	"math/big"
	"math/rand"
	"strings"

	"github.com/ethereum/go-ethereum/common"
	"github.com/ethereum/go-ethereum/crypto"
	ics23 "github.com/cosmos/ics23/go"

	commitmenttypes "github.com/bianjieai/tibc-go/modules/tibc/core/23-commitment/types"
)

type c08Triple struct {
	Src, Dst string
	Seq      uint64
}

var c08Pairs = [][2]string{{"chain-a", "chain-b"}, {"aA", "b"}, {"testchain0", "testchain1"}, {"eth.main", "irishub-1"}}
var c08Seqs = []uint64{1, 2, 3, 47, 18446744073709551615}

var (
	c08TmKeys  []map[string][]c08Triple // per tm state: fn -> triples present
	c08EthKeys []map[string][]c08Triple // per eth state: fn -> triples present in contract C1
	c08C1      = common.HexToAddress("0x00c0ffee00000000000000000000000000000c08")
	c08C2      = common.HexToAddress("0xdeadbeef0000000000000000000000000000beef")
	c08EOA     = common.HexToAddress("0x1111111111111111111111111111111111111111")
)

func c08Rnd(r *rand.Rand, n int) []byte {
	b := make([]byte, n)
	r.Read(b)
	return b
}

func c08Populate(x *c08Ctx) {
	r := newRand(80)
	// ---- Tendermint prover: three committed versions of the tibc store
	content := map[string][]byte{}
	reg := map[string]c08TripleFn{}
	set := func(fn string, p [2]string, seq uint64, v []byte) {
		k := c08Path(fn, p[0], p[1], seq)
		content[k] = v
		reg[k] = c08TripleFn{fn, c08Triple{p[0], p[1], seq}}
	}
	del := func(fn string, p [2]string, seq uint64) {
		k := c08Path(fn, p[0], p[1], seq)
		content[k] = nil
	}
	snapshotKeys := func(kv map[string][]byte) map[string][]c08Triple {
		m := map[string][]c08Triple{}
		for _, k := range sortedKeys(kv) {
			if tf, ok := reg[k]; ok {
				t := tf.T
				if tf.Fn == "clean" {
					t.Seq = binary.BigEndian.Uint64(kv[k])
				}
				m[tf.Fn] = append(m[tf.Fn], t)
			}
		}
		return m
	}
	for _, p := range c08Pairs {
		for _, s := range c08Seqs {
			set("commit", p, s, c08Rnd(r, 32))
			set("ack", p, s, c08Rnd(r, 32))
		}
		set("commit", p, 2, content[c08Path("commit", p[0], p[1], 1)]) // two keys, one value
		set("ack", p, 3, content[c08Path("commit", p[0], p[1], 3)])    // ack and commitment with one value
		set("clean", p, 2, c08be64(2))
	}
	set("commit", c08Pairs[0], 47, []byte{5})
	set("ack", c08Pairs[0], 47, c08Rnd(r, 100))
	st := x.tm.commit(content)
	c08TmKeys = append(c08TmKeys, snapshotKeys(st.KV))
	content = map[string][]byte{}
	for _, p := range c08Pairs {
		set("commit", p, 1, c08Rnd(r, 32))
		del("commit", p, 3)
		set("commit", p, 4, c08Rnd(r, 32))
		set("clean", p, 0, c08be64(3))
	}
	st = x.tm.commit(content)
	c08TmKeys = append(c08TmKeys, snapshotKeys(st.KV))
	content = map[string][]byte{}
	for _, p := range c08Pairs {
		del("ack", p, 1)
		set("ack", p, 2, c08Rnd(r, 32))
	}
	set("clean", c08Pairs[0], 0, c08be64(18446744073709551615))
	set("clean", c08Pairs[2], 0, c08be64(256))
	st = x.tm.commit(content)
	c08TmKeys = append(c08TmKeys, snapshotKeys(st.KV))

	// ---- Ethereum-style prover: three world states, contract C1 (the client's), contract C2, an EOA
	slots1, slots2 := map[common.Hash][]byte{}, map[common.Hash][]byte{}
	ereg := map[common.Hash]c08TripleFn{}
	eset := func(fn string, p [2]string, seq uint64, w []byte) {
		s := c08Slot(fn, p[0], p[1], seq)
		slots1[s] = w
		ereg[s] = c08TripleFn{fn, c08Triple{p[0], p[1], seq}}
		w2 := c08Rnd(r, 32)
		if seq == 2 {
			w2 = w
		}
		slots2[s] = w2
	}
	esnap := func() (map[common.Hash][]byte, map[common.Hash][]byte, map[string][]c08Triple) {
		a, b := map[common.Hash][]byte{}, map[common.Hash][]byte{}
		m := map[string][]c08Triple{}
		ks := make([]string, 0)
		for s := range slots1 {
			ks = append(ks, string(s[:]))
		}
		sortStrings(ks)
		for _, k := range ks {
			s := common.BytesToHash([]byte(k))
			a[s], b[s] = slots1[s], slots2[s]
			if len(bytes.TrimLeft(slots1[s], "\x00")) == 0 {
				continue
			}
			tf := ereg[s]
			t := tf.T
			if tf.Fn == "clean" {
				t.Seq = binary.BigEndian.Uint64(slots1[s][24:])
			}
			m[tf.Fn] = append(m[tf.Fn], t)
		}
		return a, b, m
	}
	word := func(n uint64) []byte { return common.LeftPadBytes(c08be64(n), 32) }
	for _, p := range c08Pairs {
		for _, s := range c08Seqs {
			eset("commit", p, s, c08Rnd(r, 32))
			eset("ack", p, s, c08Rnd(r, 32))
		}
		eset("commit", p, 2, slots1[c08Slot("commit", p[0], p[1], 1)])
		eset("ack", p, 3, slots1[c08Slot("commit", p[0], p[1], 3)])
		eset("clean", p, 0, word(2))
	}
	lz := c08Rnd(r, 32)
	lz[0], lz[1] = 0, 0
	eset("commit", c08Pairs[0], 47, lz)           // leading zero bytes: stored trimmed
	eset("ack", c08Pairs[0], 47, word(5))         // single byte < 0x80
	eset("commit", c08Pairs[1], 47, word(0x80))   // single byte >= 0x80
	eset("ack", c08Pairs[1], 47, word(0x1234567)) // short
	mk := func() {
		a, b, m := esnap()
		accts := []*c08EthAcct{
			{Addr: c08C1, Nonce: 1, Balance: big.NewInt(0), CodeHash: crypto.Keccak256Hash([]byte("code-c1")), Slots: a},
			{Addr: c08C2, Nonce: 7, Balance: new(big.Int).Lsh(big.NewInt(12345), 70), CodeHash: crypto.Keccak256Hash([]byte("code-c2")), Slots: b},
			{Addr: c08EOA, Nonce: uint64(300 + len(x.eth.states)), Balance: big.NewInt(1000000007), CodeHash: crypto.Keccak256Hash(nil), Slots: map[common.Hash][]byte{}},
		}
		x.eth.states = append(x.eth.states, c08BuildEthState(x.t, accts))
		c08EthKeys = append(c08EthKeys, m)
	}
	mk()
	for _, p := range c08Pairs {
		eset("commit", p, 1, c08Rnd(r, 32))
		eset("commit", p, 3, make([]byte, 32)) // deleted
		eset("commit", p, 4, c08Rnd(r, 32))
		eset("clean", p, 0, word(3))
	}
	mk()
	for _, p := range c08Pairs {
		eset("ack", p, 1, make([]byte, 32))
		eset("ack", p, 2, c08Rnd(r, 32))
	}
	eset("clean", c08Pairs[0], 0, word(18446744073709551615))
	eset("clean", c08Pairs[2], 0, word(256))
	mk()
}

type c08TripleFn struct {
	Fn string
	T  c08Triple
}

func sortStrings(s []string) {
	for i := 1; i < len(s); i++ {
		for j := i; j > 0 && s[j] < s[j-1]; j-- {
			s[j], s[j-1] = s[j-1], s[j]
		}
	}
}

// ---------------------------------------------------------------- base scenarios

type c08Base struct {
	In    *c08In
	State int
	T     c08Triple
	EP    *c08EP // eth/bsc: the genuine proof object
	Hs    []c08H
}

func (x *c08Ctx) base(ct, fn string, r *rand.Rand) *c08Base {
	if ct == "tm" {
		return x.baseTM(fn, r)
	}
	return x.baseEVM(ct, fn, r)
}

func (x *c08Ctx) baseTM(fn string, r *rand.Rand) *c08Base {
	i := r.Intn(len(x.tm.states))
	st := x.tm.states[i]
	tr := pick(r, c08TmKeys[i][fn])
	rev := pick(r, []uint64{0, 0, 1, 3})
	h0 := uint64(10 + r.Intn(1000))
	in := &c08In{CT: "tm", Fn: fn, Family: "valid", Specs: []int{0, 1}, Prefix: []byte("tibc"), Src: tr.Src, Dst: tr.Dst, Seq: tr.Seq}
	b := &c08Base{In: in, State: i, T: tr}
	for j, s := range x.tm.states {
		h := c08H{rev, h0 + 7*uint64(j)}
		b.Hs = append(b.Hs, h)
		in.Cons = append(in.Cons, c08Cons{h, 0, append([]byte{}, s.Root...)})
		in.PT = append(in.PT, c08PT{h, uint64(1600000000000000000 + r.Int63n(1000000000000) + int64(j)*1000000000000)})
	}
	in.H = b.Hs[i]
	in.Latest = c08H{rev, b.Hs[len(b.Hs)-1].H + pick(r, []uint64{0, 0, 5})}
	in.Delay = pick(r, []uint64{0, 1, 10, 1000000000, 600000000000})
	in.Now = in.PT[i].T + in.Delay + pick(r, []uint64{0, 0, 1, uint64(r.Int63n(1000000000000))})
	key := c08Path(fn, tr.Src, tr.Dst, tr.Seq)
	if fn != "clean" {
		in.Val = append([]byte{}, st.KV[key]...)
	}
	in.Proof = x.tm.prove(st, key)
	return b
}

func (x *c08Ctx) baseEVM(ct, fn string, r *rand.Rand) *c08Base {
	i := r.Intn(len(x.eth.states))
	st := x.eth.states[i]
	tr := pick(r, c08EthKeys[i][fn])
	rev := pick(r, []uint64{0, 0, 0, 2})
	h0 := uint64(100 + r.Intn(100000))
	in := &c08In{CT: ct, Fn: fn, Family: "valid", Prefix: append([]byte{}, c08C1[:]...), Src: tr.Src, Dst: tr.Dst, Seq: tr.Seq}
	b := &c08Base{In: in, State: i, T: tr}
	for j, s := range x.eth.states {
		h := c08H{rev, h0 + 40*uint64(j)}
		b.Hs = append(b.Hs, h)
		in.Cons = append(in.Cons, c08Cons{h, 0, append([]byte{}, s.Root[:]...)})
	}
	in.H = b.Hs[i]
	if ct == "eth" {
		in.Delay = pick(r, []uint64{0, 1, 5, 12})
	} else {
		in.Delay = pick(r, []uint64{0, 1, 2, 3, 21})
	}
	lat := in.H.H + c08BlockDelay(in) + pick(r, []uint64{0, 0, 1, uint64(r.Intn(50))})
	if last := b.Hs[len(b.Hs)-1].H; lat < last && r.Intn(2) == 0 {
		lat = last
		if lat < in.H.H+c08BlockDelay(in) {
			lat = in.H.H + c08BlockDelay(in)
		}
	}
	in.Latest = c08H{rev, lat}
	slot := c08Slot(fn, tr.Src, tr.Dst, tr.Seq)
	if fn != "clean" {
		in.Val = append([]byte{}, st.acct(c08C1[:]).Slots[slot]...)
	}
	b.EP = st.prove(c08C1, []common.Hash{slot})
	in.Proof = b.EP.bytes()
	return b
}

// ---------------------------------------------------------------- perturbations

type c08Pert struct {
	Name string
	On   string // tm | evm | any
	F    func(x *c08Ctx, b *c08Base, r *rand.Rand) bool
}

func c08OtherState(b *c08Base, n int, r *rand.Rand) int { return (b.State + 1 + r.Intn(n-1)) % n }

func (x *c08Ctx) nStates(in *c08In) int {
	if in.CT == "tm" {
		return len(x.tm.states)
	}
	return len(x.eth.states)
}

// proof the prover serves for (fn,triple) in state j (whether or not the key is present there)
func (x *c08Ctx) proofFor(in *c08In, j int, fn string, t c08Triple) []byte {
	if in.CT == "tm" {
		return x.tm.prove(x.tm.states[j], c08Path(fn, t.Src, t.Dst, t.Seq))
	}
	return x.eth.states[j].prove(common.BytesToAddress(in.Prefix), []common.Hash{c08Slot(fn, t.Src, t.Dst, t.Seq)}).bytes()
}

func (x *c08Ctx) tmEdit(bz []byte, f func(mp *commitmenttypes.MerkleProof)) []byte {
	var mp commitmenttypes.MerkleProof
	if err := x.tm.chain.App.AppCodec().Unmarshal(bz, &mp); err != nil {
		panic("c08: proof not decodable")
	}
	f(&mp)
	out, err := x.tm.chain.App.AppCodec().Marshal(&mp)
	if err != nil {
		x.t.Fatal(err)
	}
	return out
}

func c08FlipByte(b []byte, r *rand.Rand) []byte {
	if len(b) == 0 {
		return []byte{1}
	}
	c := append([]byte{}, b...)
	c[r.Intn(len(c))] ^= byte(1 + r.Intn(255))
	return c
}

func c08FlipHex(s string, r *rand.Rand) string {
	b := common.FromHex(s)
	return "0x" + common.Bytes2Hex(c08FlipByte(b, r))
}

func c08Perts() []c08Pert {
	evmEdit := func(b *c08Base, f func(ep *c08EP)) bool {
		ep := b.EP.clone()
		f(ep)
		b.EP = ep
		b.In.Proof = ep.bytes()
		return true
	}
	return []c08Pert{
		// ---- claimed value
		{"val-flip", "any", func(x *c08Ctx, b *c08Base, r *rand.Rand) bool {
			if b.In.Fn == "clean" {
				b.In.Seq += pick(r, []uint64{1, ^uint64(0), 256})
			} else {
				b.In.Val = c08FlipByte(b.In.Val, r)
			}
			return true
		}},
		{"val-trunc", "any", func(x *c08Ctx, b *c08Base, r *rand.Rand) bool {
			if b.In.Fn == "clean" || len(b.In.Val) == 0 {
				return false
			}
			b.In.Val = b.In.Val[:len(b.In.Val)-1]
			return true
		}},
		{"val-empty", "any", func(x *c08Ctx, b *c08Base, r *rand.Rand) bool {
			if b.In.Fn == "clean" {
				return false
			}
			b.In.Val = nil
			return true
		}},
		{"val-extended", "any", func(x *c08Ctx, b *c08Base, r *rand.Rand) bool {
			if b.In.Fn == "clean" {
				return false
			}
			if r.Intn(2) == 0 {
				b.In.Val = append(b.In.Val, 0)
			} else {
				b.In.Val = append([]byte{0}, b.In.Val...)
			}
			return true
		}},
		{"val-be64", "evm", func(x *c08Ctx, b *c08Base, r *rand.Rand) bool { // the 8-byte form of a short word
			if b.In.Fn == "clean" || len(b.In.Val) != 32 {
				return false
			}
			b.In.Val = b.In.Val[24:]
			return true
		}},
		{"val-trimmed", "evm", func(x *c08Ctx, b *c08Base, r *rand.Rand) bool {
			if b.In.Fn == "clean" {
				return false
			}
			b.In.Val = common.TrimLeftZeroes(b.In.Val)
			return true
		}},
		// ---- queried key (proof unchanged)
		{"key-seq", "any", func(x *c08Ctx, b *c08Base, r *rand.Rand) bool {
			if b.In.Fn == "clean" {
				return false
			}
			s := pick(r, c08Seqs)
			if s == b.In.Seq {
				s = b.In.Seq + 1
			}
			b.In.Seq = s
			return true
		}},
		{"key-src-dst", "any", func(x *c08Ctx, b *c08Base, r *rand.Rand) bool {
			switch r.Intn(3) {
			case 0:
				b.In.Src, b.In.Dst = b.In.Dst, b.In.Src
			case 1:
				p := pick(r, c08Pairs)
				b.In.Src = p[0]
				if p[0] == b.T.Src {
					b.In.Src = p[0] + "x"
				}
			default:
				b.In.Dst = b.In.Dst + "/x"
			}
			return true
		}},
		{"fn-swap", "any", func(x *c08Ctx, b *c08Base, r *rand.Rand) bool {
			fns := []string{"commit", "ack", "clean"}
			f := pick(r, fns)
			if f == b.In.Fn {
				return false
			}
			if b.In.Fn == "clean" {
				b.In.Val = c08be64(b.In.Seq)
				if b.In.CT != "tm" {
					b.In.Val = common.LeftPadBytes(b.In.Val, 32)
				}
			}
			b.In.Fn = f
			return true
		}},
		// ---- proof for something else
		{"proof-other-key", "any", func(x *c08Ctx, b *c08Base, r *rand.Rand) bool {
			keys := c08TmKeys[b.State][b.In.Fn]
			if b.In.CT != "tm" {
				keys = c08EthKeys[b.State][b.In.Fn]
			}
			t := pick(r, keys)
			if t == b.T {
				return false
			}
			b.In.Proof = x.proofFor(b.In, b.State, b.In.Fn, t)
			return true
		}},
		{"proof-same-value-other-key", "any", func(x *c08Ctx, b *c08Base, r *rand.Rand) bool { // seq 1 and 2 hold one value in state 0
			if b.State != 0 || b.In.Fn != "commit" || (b.T.Seq != 1 && b.T.Seq != 2) {
				return false
			}
			t := b.T
			t.Seq = 3 - t.Seq
			b.In.Proof = x.proofFor(b.In, b.State, b.In.Fn, t)
			return true
		}},
		{"proof-same-value-other-fn", "any", func(x *c08Ctx, b *c08Base, r *rand.Rand) bool { // ack 3 = commit 3 in state 0
			if b.State != 0 || b.T.Seq != 3 || b.In.Fn == "clean" {
				return false
			}
			other := "ack"
			if b.In.Fn == "ack" {
				other = "commit"
			}
			b.In.Proof = x.proofFor(b.In, b.State, other, b.T)
			return true
		}},
		{"proof-other-state", "any", func(x *c08Ctx, b *c08Base, r *rand.Rand) bool {
			j := c08OtherState(b, x.nStates(b.In), r)
			b.In.Proof = x.proofFor(b.In, j, b.In.Fn, b.T)
			return true
		}},
		{"absent-key", "any", func(x *c08Ctx, b *c08Base, r *rand.Rand) bool {
			b.In.Seq = 999 + uint64(r.Intn(5))
			b.In.Src = b.In.Src + pick(r, []string{"", "q"})
			t := c08Triple{b.In.Src, b.In.Dst, b.In.Seq}
			if b.In.Fn == "clean" {
				b.In.Src = "nochain"
				t.Src = "nochain"
			}
			b.In.Proof = x.proofFor(b.In, b.State, b.In.Fn, t)
			return true
		}},
		// ---- recorded root / consensus entry
		{"cons-other-root", "any", func(x *c08Ctx, b *c08Base, r *rand.Rand) bool {
			j := c08OtherState(b, x.nStates(b.In), r)
			b.In.consAt(b.In.H).Root = append([]byte{}, b.In.Cons[j].Root...)
			return true
		}},
		{"cons-root-flip", "any", func(x *c08Ctx, b *c08Base, r *rand.Rand) bool {
			c := b.In.consAt(b.In.H)
			c.Root = c08FlipByte(c.Root, r)
			return true
		}},
		{"cons-root-empty", "any", func(x *c08Ctx, b *c08Base, r *rand.Rand) bool {
			b.In.consAt(b.In.H).Root = nil
			return true
		}},
		{"cons-root-33", "evm", func(x *c08Ctx, b *c08Base, r *rand.Rand) bool { // BytesToHash keeps the last 32 bytes
			c := b.In.consAt(b.In.H)
			c.Root = append([]byte{byte(1 + r.Intn(255))}, c.Root...)
			return true
		}},
		{"cons-root-31", "evm", func(x *c08Ctx, b *c08Base, r *rand.Rand) bool {
			c := b.In.consAt(b.In.H)
			c.Root = c.Root[1:]
			return true
		}},
		{"cons-missing", "any", func(x *c08Ctx, b *c08Base, r *rand.Rand) bool {
			var out []c08Cons
			for _, c := range b.In.Cons {
				if c.H != b.In.H {
					out = append(out, c)
				}
			}
			b.In.Cons = out
			return true
		}},
		{"cons-other-type", "any", func(x *c08Ctx, b *c08Base, r *rand.Rand) bool {
			b.In.consAt(b.In.H).Kind = 1
			return true
		}},
		{"cons-garbage", "any", func(x *c08Ctx, b *c08Base, r *rand.Rand) bool {
			b.In.consAt(b.In.H).Kind = 2
			return true
		}},
		{"cons-at-other-height-only", "any", func(x *c08Ctx, b *c08Base, r *rand.Rand) bool { // proof height moved to a height with another root
			j := c08OtherState(b, x.nStates(b.In), r)
			b.In.H = b.Hs[j]
			if b.In.Latest.lt(b.In.H) {
				b.In.Latest = b.In.H
			}
			if b.In.CT != "tm" {
				b.In.Latest.H = b.In.H.H + c08BlockDelay(b.In) + 3
			} else {
				b.In.Now = ^uint64(0) >> 1
			}
			return true
		}},
		{"pt-missing", "tm", func(x *c08Ctx, b *c08Base, r *rand.Rand) bool {
			var out []c08PT
			for _, p := range b.In.PT {
				if p.H != b.In.H {
					out = append(out, p)
				}
			}
			b.In.PT = out
			return true
		}},
		// ---- height bound
		{"height-above-latest-by-1", "any", func(x *c08Ctx, b *c08Base, r *rand.Rand) bool {
			if b.In.H.H == 0 {
				return false
			}
			b.In.Latest = c08H{b.In.H.Rev, b.In.H.H - 1}
			return true
		}},
		{"height-equals-latest", "any", func(x *c08Ctx, b *c08Base, r *rand.Rand) bool {
			b.In.Latest = b.In.H
			return true
		}},
		{"latest-lower-revision", "any", func(x *c08Ctx, b *c08Base, r *rand.Rand) bool {
			if b.In.H.Rev == 0 {
				return false
			}
			b.In.Latest = c08H{b.In.H.Rev - 1, b.In.H.H + 1000}
			return true
		}},
		{"latest-higher-revision", "any", func(x *c08Ctx, b *c08Base, r *rand.Rand) bool {
			b.In.Latest = c08H{b.In.H.Rev + 1, pick(r, []uint64{1, b.In.H.H - 1, b.In.H.H + c08BlockDelay(b.In), b.In.H.H + 1000})}
			return true
		}},
		// ---- delay
		{"delay-short-by-1", "any", func(x *c08Ctx, b *c08Base, r *rand.Rand) bool {
			if b.In.CT == "tm" {
				if b.In.Delay == 0 {
					b.In.Delay = 1 + uint64(r.Intn(1000))
				}
				pt, _ := b.In.ptAt(b.In.H)
				b.In.Now = pt + b.In.Delay - 1
			} else {
				d := c08BlockDelay(b.In)
				if d == 0 {
					b.In.Delay = 1 + uint64(r.Intn(9))
					d = c08BlockDelay(b.In)
				}
				b.In.Latest.H = b.In.H.H + d - 1
			}
			return true
		}},
		{"delay-exact", "any", func(x *c08Ctx, b *c08Base, r *rand.Rand) bool {
			if b.In.CT == "tm" {
				pt, _ := b.In.ptAt(b.In.H)
				b.In.Now = pt + b.In.Delay
			} else {
				b.In.Latest.H = b.In.H.H + c08BlockDelay(b.In)
			}
			return true
		}},
		{"delay-plus-1", "any", func(x *c08Ctx, b *c08Base, r *rand.Rand) bool {
			if b.In.CT == "tm" {
				pt, _ := b.In.ptAt(b.In.H)
				b.In.Now = pt + b.In.Delay + 1
			} else {
				b.In.Latest.H = b.In.H.H + c08BlockDelay(b.In) + 1
			}
			return true
		}},
		{"delay-larger", "any", func(x *c08Ctx, b *c08Base, r *rand.Rand) bool { // configured delay raised above what has elapsed
			if b.In.CT == "tm" {
				pt, _ := b.In.ptAt(b.In.H)
				b.In.Delay = b.In.Now - pt + 1 + uint64(r.Intn(3))
			} else if b.In.CT == "eth" {
				b.In.Delay = b.In.Latest.H - b.In.H.H + 1 + uint64(r.Intn(3))
			} else {
				b.In.Delay = 3 * (b.In.Latest.H - b.In.H.H + 1)
				if b.In.Delay > 300 {
					return false
				}
			}
			return true
		}},
		{"delay-sum-overflow", "tm", func(x *c08Ctx, b *c08Base, r *rand.Rand) bool { // processed + delay >= 2^64
			pt, _ := b.In.ptAt(b.In.H)
			b.In.Delay = ^uint64(0) - pt + 1 + uint64(r.Intn(1000))
			return true
		}},
		{"now-before-processed", "tm", func(x *c08Ctx, b *c08Base, r *rand.Rand) bool {
			pt, _ := b.In.ptAt(b.In.H)
			b.In.Now = pt - 1 - uint64(r.Intn(1000))
			return true
		}},
		{"now-negative-unixnano", "tm", func(x *c08Ctx, b *c08Base, r *rand.Rand) bool { // uint64 of a negative UnixNano
			b.In.Now = ^uint64(0) - uint64(r.Intn(1000000))
			return true
		}},
		// ---- proof bytes
		{"proof-nil", "any", func(x *c08Ctx, b *c08Base, r *rand.Rand) bool {
			b.In.ProofNil, b.In.Proof = true, nil
			return true
		}},
		{"proof-empty", "any", func(x *c08Ctx, b *c08Base, r *rand.Rand) bool {
			b.In.Proof = []byte{}
			return true
		}},
		{"proof-truncated-bytes", "any", func(x *c08Ctx, b *c08Base, r *rand.Rand) bool {
			b.In.Proof = b.In.Proof[:r.Intn(len(b.In.Proof))]
			return true
		}},
		{"proof-byte-flip", "any", func(x *c08Ctx, b *c08Base, r *rand.Rand) bool {
			b.In.Proof = c08FlipByte(b.In.Proof, r)
			return true
		}},
		{"proof-random-bytes", "any", func(x *c08Ctx, b *c08Base, r *rand.Rand) bool {
			b.In.Proof = c08Rnd(r, 1+r.Intn(200))
			return true
		}},
		// ---- tendermint proof structure
		{"tm-drop-store-op", "tm", func(x *c08Ctx, b *c08Base, r *rand.Rand) bool {
			b.In.Proof = x.tmEdit(b.In.Proof, func(mp *commitmenttypes.MerkleProof) { mp.Proofs = mp.Proofs[1:] })
			return true
		}},
		{"tm-drop-multistore-op", "tm", func(x *c08Ctx, b *c08Base, r *rand.Rand) bool {
			b.In.Proof = x.tmEdit(b.In.Proof, func(mp *commitmenttypes.MerkleProof) { mp.Proofs = mp.Proofs[:1] })
			return true
		}},
		{"tm-swap-ops", "tm", func(x *c08Ctx, b *c08Base, r *rand.Rand) bool {
			b.In.Proof = x.tmEdit(b.In.Proof, func(mp *commitmenttypes.MerkleProof) { mp.Proofs[0], mp.Proofs[1] = mp.Proofs[1], mp.Proofs[0] })
			return true
		}},
		{"tm-duplicate-op", "tm", func(x *c08Ctx, b *c08Base, r *rand.Rand) bool {
			b.In.Proof = x.tmEdit(b.In.Proof, func(mp *commitmenttypes.MerkleProof) {
				i := r.Intn(2)
				mp.Proofs = append(mp.Proofs[:i+1], mp.Proofs[i:]...)
			})
			return true
		}},
		{"tm-no-ops", "tm", func(x *c08Ctx, b *c08Base, r *rand.Rand) bool {
			b.In.Proof = x.tmEdit(b.In.Proof, func(mp *commitmenttypes.MerkleProof) { mp.Proofs = nil })
			return true
		}},
		{"tm-edit-exist-value", "tm", func(x *c08Ctx, b *c08Base, r *rand.Rand) bool {
			nv := c08FlipByte(b.In.claimed(), r)
			b.In.Proof = x.tmEdit(b.In.Proof, func(mp *commitmenttypes.MerkleProof) { mp.Proofs[0].GetExist().Value = nv })
			if r.Intn(2) == 0 && b.In.Fn != "clean" {
				b.In.Val = nv // claimed value follows the forged leaf: the root no longer matches
			}
			return true
		}},
		{"tm-edit-exist-key", "tm", func(x *c08Ctx, b *c08Base, r *rand.Rand) bool {
			i := r.Intn(2)
			b.In.Proof = x.tmEdit(b.In.Proof, func(mp *commitmenttypes.MerkleProof) { mp.Proofs[i].GetExist().Key = c08FlipByte(mp.Proofs[i].GetExist().Key, r) })
			return true
		}},
		{"tm-edit-inner-op", "tm", func(x *c08Ctx, b *c08Base, r *rand.Rand) bool {
			done := false
			b.In.Proof = x.tmEdit(b.In.Proof, func(mp *commitmenttypes.MerkleProof) {
				for _, p := range mp.Proofs {
					if ex := p.GetExist(); ex != nil && len(ex.Path) > 0 && !done {
						op := ex.Path[r.Intn(len(ex.Path))]
						op.Prefix = c08FlipByte(op.Prefix, r)
						done = true
					}
				}
			})
			return done
		}},
		{"tm-multistore-op-of-other-state", "tm", func(x *c08Ctx, b *c08Base, r *rand.Rand) bool {
			j := c08OtherState(b, len(x.tm.states), r)
			var other commitmenttypes.MerkleProof
			_ = x.tm.chain.App.AppCodec().Unmarshal(x.proofFor(b.In, j, b.In.Fn, b.T), &other)
			b.In.Proof = x.tmEdit(b.In.Proof, func(mp *commitmenttypes.MerkleProof) { mp.Proofs[1] = other.Proofs[1] })
			return true
		}},
		{"tm-op-without-proof", "tm", func(x *c08Ctx, b *c08Base, r *rand.Rand) bool {
			i := r.Intn(2)
			b.In.Proof = x.tmEdit(b.In.Proof, func(mp *commitmenttypes.MerkleProof) { mp.Proofs[i] = &ics23.CommitmentProof{} })
			return true
		}},
		{"tm-batch-op", "tm", func(x *c08Ctx, b *c08Base, r *rand.Rand) bool {
			b.In.Proof = x.tmEdit(b.In.Proof, func(mp *commitmenttypes.MerkleProof) {
				ex := mp.Proofs[0].GetExist()
				mp.Proofs[0] = &ics23.CommitmentProof{Proof: &ics23.CommitmentProof_Batch{Batch: &ics23.BatchProof{Entries: []*ics23.BatchEntry{{Proof: &ics23.BatchEntry_Exist{Exist: ex}}}}}}
			})
			return true
		}},
		// ---- spec-violating re-encodings of a genuine proof (root-preserving wherever that is possible): the leaf /
		// inner ops no longer have the shape the proof spec demands, the claimed value is the one the re-encoding "proves"
		{"spec-leaf-prehash-value", "tm", func(x *c08Ctx, b *c08Base, r *rand.Rand) bool { // Value := sha256(V), prehash_value NO_HASH: same leaf pre-image
			var nv []byte
			b.In.Proof = x.tmEdit(b.In.Proof, func(mp *commitmenttypes.MerkleProof) {
				ex := mp.Proofs[0].GetExist()
				h := sha256.Sum256(ex.Value)
				ex.Value, ex.Leaf.PrehashValue = h[:], ics23.HashOp_NO_HASH
				nv = h[:]
			})
			if b.In.Fn != "clean" {
				b.In.Val = nv
			}
			return true
		}},
		{"spec-leaf-prehash-value-multistore", "tm", func(x *c08Ctx, b *c08Base, r *rand.Rand) bool {
			b.In.Proof = x.tmEdit(b.In.Proof, func(mp *commitmenttypes.MerkleProof) {
				ex := mp.Proofs[1].GetExist()
				h := sha256.Sum256(ex.Value)
				ex.Value, ex.Leaf.PrehashValue = h[:], ics23.HashOp_NO_HASH
			})
			return true
		}},
		{"spec-leaf-length-moved", "tm", func(x *c08Ctx, b *c08Base, r *rand.Rand) bool { // length NO_PREFIX, key length into the prefix, value := len||sha256(V)
			var nv []byte
			lvl := pick(r, []int{0, 0, 0, 1})
			b.In.Proof = x.tmEdit(b.In.Proof, func(mp *commitmenttypes.MerkleProof) {
				ex := mp.Proofs[lvl].GetExist()
				h := sha256.Sum256(ex.Value)
				ex.Leaf.Prefix = append(append([]byte{}, ex.Leaf.Prefix...), c08Uvarint(len(ex.Key))...)
				ex.Leaf.Length, ex.Leaf.PrehashValue = ics23.LengthOp_NO_PREFIX, ics23.HashOp_NO_HASH
				ex.Value = append(c08Uvarint(32), h[:]...)
				nv = ex.Value
			})
			if b.In.Fn != "clean" && lvl == 0 {
				b.In.Val = nv
			}
			return true
		}},
		{"spec-leaf-prehash-key", "tm", func(x *c08Ctx, b *c08Base, r *rand.Rand) bool { // no root-preserving form exists: the spec has NO_HASH
			lvl := r.Intn(2)
			b.In.Proof = x.tmEdit(b.In.Proof, func(mp *commitmenttypes.MerkleProof) {
				mp.Proofs[lvl].GetExist().Leaf.PrehashKey = pick(r, []ics23.HashOp{ics23.HashOp_SHA256, ics23.HashOp_SHA512})
			})
			return true
		}},
		{"spec-leaf-prefix-into-key", "tm", func(x *c08Ctx, b *c08Base, r *rand.Rand) bool { // last prefix byte and the key length become part of the key
			lvl := pick(r, []int{0, 0, 1})
			b.In.Proof = x.tmEdit(b.In.Proof, func(mp *commitmenttypes.MerkleProof) {
				ex := mp.Proofs[lvl].GetExist()
				h := sha256.Sum256(ex.Value)
				n := len(ex.Leaf.Prefix)
				ex.Key = append(append([]byte{ex.Leaf.Prefix[n-1]}, c08Uvarint(len(ex.Key))...), ex.Key...)
				ex.Leaf.Prefix = append([]byte{}, ex.Leaf.Prefix[:n-1]...)
				ex.Leaf.Length, ex.Leaf.PrehashValue = ics23.LengthOp_NO_PREFIX, ics23.HashOp_NO_HASH
				ex.Value = append(c08Uvarint(32), h[:]...)
				if b.In.Fn != "clean" && lvl == 0 {
					b.In.Val = ex.Value
				}
			})
			return true
		}},
		{"spec-leaf-hash-op", "tm", func(x *c08Ctx, b *c08Base, r *rand.Rand) bool {
			lvl := r.Intn(2)
			b.In.Proof = x.tmEdit(b.In.Proof, func(mp *commitmenttypes.MerkleProof) {
				mp.Proofs[lvl].GetExist().Leaf.Hash = pick(r, []ics23.HashOp{ics23.HashOp_SHA512, ics23.HashOp_RIPEMD160, ics23.HashOp_NO_HASH})
			})
			return true
		}},
		{"spec-inner-as-leaf", "tm", func(x *c08Ctx, b *c08Base, r *rand.Rand) bool { // an inner node of the genuine path presented as the leaf
			done := false
			b.In.Proof = x.tmEdit(b.In.Proof, func(mp *commitmenttypes.MerkleProof) {
				ex := mp.Proofs[0].GetExist()
				if len(ex.Path) < 2 {
					return
				}
				child, err := ex.Leaf.Apply(ex.Key, ex.Value)
				if err != nil {
					return
				}
				op := ex.Path[0]
				pre := append(append(append([]byte{}, op.Prefix...), child...), op.Suffix...)
				k := 1 + r.Intn(len(pre)-2)
				ex.Leaf = &ics23.LeafOp{Hash: op.Hash, PrehashKey: ics23.HashOp_NO_HASH, PrehashValue: ics23.HashOp_NO_HASH, Length: ics23.LengthOp_NO_PREFIX, Prefix: pre[:1]}
				ex.Key, ex.Value = pre[1:k+1], pre[k+1:]
				ex.Path = ex.Path[1:]
				if b.In.Fn != "clean" {
					b.In.Val = ex.Value
				}
				done = true
			})
			return done
		}},
		{"spec-inner-hash-op", "tm", func(x *c08Ctx, b *c08Base, r *rand.Rand) bool {
			done := false
			b.In.Proof = x.tmEdit(b.In.Proof, func(mp *commitmenttypes.MerkleProof) {
				ex := mp.Proofs[r.Intn(2)].GetExist()
				if len(ex.Path) > 0 {
					ex.Path[r.Intn(len(ex.Path))].Hash = pick(r, []ics23.HashOp{ics23.HashOp_SHA512, ics23.HashOp_SHA512_256, ics23.HashOp_NO_HASH})
					done = true
				}
			})
			return done
		}},
		{"spec-inner-extra-op", "tm", func(x *c08Ctx, b *c08Base, r *rand.Rand) bool { // an op the spec's min/max prefix length forbids (an inner op always hashes: no no-op form exists)
			b.In.Proof = x.tmEdit(b.In.Proof, func(mp *commitmenttypes.MerkleProof) {
				ex := mp.Proofs[r.Intn(2)].GetExist()
				extra := &ics23.InnerOp{Hash: ics23.HashOp_SHA256, Prefix: pick(r, [][]byte{nil, {1}, bytes.Repeat([]byte{2}, 60)})}
				i := r.Intn(len(ex.Path) + 1)
				ex.Path = append(ex.Path[:i], append([]*ics23.InnerOp{extra}, ex.Path[i:]...)...)
			})
			return true
		}},
		{"spec-inner-prefix-suffix-shift", "tm", func(x *c08Ctx, b *c08Base, r *rand.Rand) bool { // bytes moved across the child position
			done := false
			b.In.Proof = x.tmEdit(b.In.Proof, func(mp *commitmenttypes.MerkleProof) {
				ex := mp.Proofs[r.Intn(2)].GetExist()
				for _, op := range ex.Path {
					if len(op.Suffix) > 0 && !done && r.Intn(2) == 0 {
						op.Prefix = append(append([]byte{}, op.Prefix...), op.Suffix[0])
						op.Suffix = op.Suffix[1:]
						done = true
					} else if len(op.Prefix) > 1 && !done && r.Intn(2) == 0 {
						n := len(op.Prefix)
						op.Suffix = append([]byte{op.Prefix[n-1]}, op.Suffix...)
						op.Prefix = op.Prefix[:n-1]
						done = true
					}
				}
			})
			return done
		}},
		// ---- tendermint client configuration
		{"tm-specs", "tm", func(x *c08Ctx, b *c08Base, r *rand.Rand) bool {
			b.In.Specs = pick(r, [][]int{{1, 0}, {0}, {1}, {0, 1, 1}, {0, -1}, {-1, 1}, {}, {0, 0}, {1, 1}, {2, 1}, {0, 2}})
			return true
		}},
		{"tm-prefix", "tm", func(x *c08Ctx, b *c08Base, r *rand.Rand) bool {
			b.In.Prefix = []byte(pick(r, []string{"", "bank", "tibc/", "tib", "TIBC", "acc"}))
			return true
		}},
		{"tm-prefix-percent", "tm", func(x *c08Ctx, b *c08Base, r *rand.Rand) bool {
			b.In.Prefix = []byte(pick(r, []string{"tib%63", "%74ibc", "tibc%", "tib%6", "tib%zz", "%tibc"}))
			return true
		}},
		{"tm-name-percent", "tm", func(x *c08Ctx, b *c08Base, r *rand.Rand) bool { // the stored key belongs to chain "aA", the call names "a%41"
			if b.T.Src != "aA" {
				return false
			}
			b.In.Src = pick(r, []string{"a%41", "%61A", "a%4", "aA%", "a%4g"})
			return true
		}},
		// ---- contract / account
		{"evm-client-other-contract", "evm", func(x *c08Ctx, b *c08Base, r *rand.Rand) bool {
			b.In.Prefix = append([]byte{}, pick(r, [][]byte{c08C2[:], c08EOA[:], c08C1[:19], append(append([]byte{}, c08C1[:]...), 0), {}})...)
			return true
		}},
		{"evm-proof-of-other-contract", "evm", func(x *c08Ctx, b *c08Base, r *rand.Rand) bool { // genuine proof of the same slot in another contract
			a := pick(r, []common.Address{c08C2, c08EOA, common.HexToAddress("0x77")})
			b.In.Proof = x.eth.states[b.State].prove(a, []common.Hash{c08Slot(b.In.Fn, b.T.Src, b.T.Dst, b.T.Seq)}).bytes()
			return true
		}},
		{"evm-other-contract-consistently", "evm", func(x *c08Ctx, b *c08Base, r *rand.Rand) bool { // client tracks C2, proof of C2: verifies iff C2 holds the value
			b.In.Prefix = append([]byte{}, c08C2[:]...)
			b.In.Proof = x.eth.states[b.State].prove(c08C2, []common.Hash{c08Slot(b.In.Fn, b.T.Src, b.T.Dst, b.T.Seq)}).bytes()
			return true
		}},
		{"evm-address-field", "evm", func(x *c08Ctx, b *c08Base, r *rand.Rand) bool {
			return evmEdit(b, func(ep *c08EP) {
				ep.Address = pick(r, []string{"0x" + common.Bytes2Hex(c08C2[:]), "", "0x", c08FlipHex(ep.Address, r), ep.Address[2:], "0X" + ep.Address[2:], "0x00" + ep.Address[2:]})
			})
		}},
		{"evm-account-field", "evm", func(x *c08Ctx, b *c08Base, r *rand.Rand) bool {
			c2 := x.eth.states[b.State].prove(c08C2, nil)
			return evmEdit(b, func(ep *c08EP) {
				switch r.Intn(8) {
				case 0:
					ep.Nonce = "0x2"
				case 1:
					ep.Balance = "0x1"
				case 2:
					ep.CodeHash = c08FlipHex(ep.CodeHash, r)
				case 3:
					ep.StorageHash = c08FlipHex(ep.StorageHash, r)
				case 4:
					ep.StorageHash = c2.StorageHash
				case 5:
					ep.Nonce, ep.Balance = ep.Balance, ep.Nonce
				case 6:
					ep.CodeHash, ep.StorageHash = ep.StorageHash, ep.CodeHash
				default:
					ep.Nonce, ep.Balance, ep.CodeHash, ep.StorageHash = c2.Nonce, c2.Balance, c2.CodeHash, c2.StorageHash
				}
			})
		}},
		{"evm-account-field-spelling", "evm", func(x *c08Ctx, b *c08Base, r *rand.Rand) bool { // other spellings of the same numbers: still a proof
			return evmEdit(b, func(ep *c08EP) {
				ep.Nonce = "0x000" + ep.Nonce[2:]
				ep.Balance = ep.Balance[2:]
				ep.CodeHash = ep.CodeHash[2:]
			})
		}},
		{"evm-account-proof", "evm", func(x *c08Ctx, b *c08Base, r *rand.Rand) bool {
			return evmEdit(b, func(ep *c08EP) {
				n := len(ep.AccountProof)
				switch r.Intn(7) {
				case 0:
					ep.AccountProof = ep.AccountProof[:n-1]
				case 1:
					ep.AccountProof = ep.AccountProof[1:]
				case 2: // reversed: the nodes are looked up by hash
					for i, j := 0, n-1; i < j; i, j = i+1, j-1 {
						ep.AccountProof[i], ep.AccountProof[j] = ep.AccountProof[j], ep.AccountProof[i]
					}
				case 3:
					ep.AccountProof = append(ep.AccountProof, "0x"+common.Bytes2Hex(c08Rnd(r, 40)))
				case 4:
					i := r.Intn(n)
					ep.AccountProof[i] = c08FlipHex(ep.AccountProof[i], r)
				case 5:
					ep.AccountProof = nil
				default:
					ep.AccountProof = x.eth.states[c08OtherState(b, len(x.eth.states), r)].prove(common.BytesToAddress(common.FromHex(ep.Address)), nil).AccountProof
				}
			})
		}},
		{"evm-storage-proof", "evm", func(x *c08Ctx, b *c08Base, r *rand.Rand) bool {
			return evmEdit(b, func(ep *c08EP) {
				sp := ep.StorageProof[0]
				n := len(sp.Proof)
				switch r.Intn(8) {
				case 0:
					if n > 0 {
						sp.Proof = sp.Proof[:n-1]
					}
				case 1:
					if n > 0 {
						sp.Proof = sp.Proof[1:]
					}
				case 2:
					for i, j := 0, n-1; i < j; i, j = i+1, j-1 {
						sp.Proof[i], sp.Proof[j] = sp.Proof[j], sp.Proof[i]
					}
				case 3:
					sp.Proof = append(sp.Proof, "0x"+common.Bytes2Hex(c08Rnd(r, 40)))
				case 4:
					if n > 0 {
						i := r.Intn(n)
						sp.Proof[i] = c08FlipHex(sp.Proof[i], r)
					}
				case 5:
					sp.Proof = nil
				case 6:
					sp.Value = "0x01"
				default:
					sp.Proof = x.eth.states[b.State].prove(c08C2, []common.Hash{common.HexToHash(sp.Key)}).StorageProof[0].Proof
				}
			})
		}},
		{"evm-storage-entries", "evm", func(x *c08Ctx, b *c08Base, r *rand.Rand) bool {
			other := x.eth.states[b.State].prove(common.BytesToAddress(b.In.Prefix), []common.Hash{c08Slot("commit", "chain-a", "chain-b", 1)}).StorageProof
			return evmEdit(b, func(ep *c08EP) {
				switch r.Intn(5) {
				case 0:
					ep.StorageProof = nil
				case 1:
					ep.StorageProof = append(ep.StorageProof, other...)
				case 2:
					ep.StorageProof = append(other, ep.StorageProof...)
				case 3:
					ep.StorageProof = []*c08SR{nil}
				default:
					ep.StorageProof = append(ep.StorageProof, ep.StorageProof[0])
				}
			})
		}},
		{"evm-storage-key", "evm", func(x *c08Ctx, b *c08Base, r *rand.Rand) bool {
			return evmEdit(b, func(ep *c08EP) {
				sp := ep.StorageProof[0]
				switch r.Intn(6) {
				case 0:
					sp.Key = c08FlipHex(sp.Key, r)
				case 1: // the hashed key (what the BSC client compared before d0bf41f)
					sp.Key = "0x" + common.Bytes2Hex(crypto.Keccak256(common.FromHex(sp.Key)))
				case 2:
					sp.Key = sp.Key[2:]
				case 3:
					sp.Key = "0x00" + sp.Key[2:] // 33 bytes: HexToHash keeps the last 32
				case 4:
					sp.Key = ""
				default:
					sp.Key = "0x" + common.Bytes2Hex(c08SlotHash(b.In.Fn, b.T.Src, b.T.Dst, b.T.Seq, 105))
				}
			})
		}},
		{"evm-storage-of-other-contract", "evm", func(x *c08Ctx, b *c08Base, r *rand.Rand) bool { // C1's address and account proof, C2's storage root, storage proof and word
			slot := c08Slot(b.In.Fn, b.T.Src, b.T.Dst, b.T.Seq)
			c2 := x.eth.states[b.State].prove(c08C2, []common.Hash{slot})
			if b.In.Fn != "clean" {
				b.In.Val = append([]byte{}, x.eth.states[b.State].acct(c08C2[:]).Slots[slot]...)
			}
			return evmEdit(b, func(ep *c08EP) {
				ep.StorageHash, ep.StorageProof = c2.StorageHash, c2.StorageProof
				if r.Intn(2) == 0 {
					ep.Nonce, ep.Balance, ep.CodeHash = c2.Nonce, c2.Balance, c2.CodeHash
				}
			})
		}},
		{"evm-json-shape", "evm", func(x *c08Ctx, b *c08Base, r *rand.Rand) bool {
			b.In.Proof = []byte(pick(r, []string{"{}", "null", "[]", "{\"address\":1}", "{\"storage_proof\":[null]}", "{\"storage_proof\":{}}", string(b.In.Proof) + "x", " " + string(b.In.Proof) + "\n",
				"{\"address\":\"" + b.EP.Address + "\"}"}))
			return true
		}},
	}
}

func c08SlotHash(fn, src, dst string, seq uint64, index byte) []byte {
	idx := make([]byte, 32)
	idx[31] = index
	return crypto.Keccak256(append([]byte(c08Path(fn, src, dst, seq)), idx...))
}

func c08Applies(p c08Pert, ct string) bool {
	switch p.On {
	case "tm":
		return ct == "tm"
	case "evm":
		return ct != "tm"
	}
	return true
}

// ---------------------------------------------------------------- streams

func c08Directed(x *c08Ctx) {
	r := newRand(81)
	perts := c08Perts()
	reps := 2
	if envTier() == "thorough" {
		reps = 12
	}
	for _, ct := range []string{"tm", "eth", "bsc"} {
		for _, fn := range []string{"commit", "ack", "clean"} {
			for k := 0; k < 3*reps; k++ {
				b := x.base(ct, fn, r)
				x.exec(b.In)
			}
			for _, p := range perts {
				if !c08Applies(p, ct) {
					continue
				}
				done, want := 0, reps
				if strings.HasPrefix(p.Name, "spec-") {
					want = 2 * reps
				}
				for tries := 0; tries < 80 && done < want; tries++ {
					b := x.base(ct, fn, r)
					if p.F(x, b, r) {
						b.In.Family = p.Name
						x.exec(b.In)
						done++
					}
				}
			}
		}
	}
}

func c08Random(x *c08Ctx, n int) {
	r := newRand(82)
	perts := c08Perts()
	for i := 0; i < n; i++ {
		ct := pick(r, []string{"tm", "tm", "eth", "eth", "bsc"})
		fn := pick(r, []string{"commit", "commit", "ack", "ack", "clean"})
		b := x.base(ct, fn, r)
		k := pick(r, []int{0, 0, 1, 1, 1, 1, 2, 2})
		fam := "random"
		for j := 0; j < k; j++ {
			p := pick(r, perts)
			if !c08Applies(p, ct) {
				continue
			}
			ok := false
			func() {
				defer func() { _ = recover() }() // a second perturbation may not apply to an already perturbed input
				ok = p.F(x, b, r)
			}()
			if ok {
				fam += "+" + p.Name
			}
		}
		if fam == "random" {
			fam = "random-valid"
		} else {
			fam = "random-perturbed"
		}
		b.In.Family = fam
		x.exec(b.In)
	}
}

var _ = bytes.Equal

func c08Uvarint(n int) []byte {
	buf := make([]byte, binary.MaxVarintLen64)
	return buf[:binary.PutUvarint(buf, uint64(n))]
}
