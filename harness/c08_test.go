package harness

// C08 -- state-proof verification is sound and complete for every client type.
// Drives the exported Verify* methods of the 07-tendermint, 09-eth and 08-bsc client states over real IAVL
// proofs (served by a SimApp chain) and real Merkle-Patricia account+storage proofs (go-ethereum tries).

import (
	"bytes"
	"encoding/hex"
	"encoding/json"
	"os"
	"path/filepath"
	"regexp"
	"fmt"
	"math/big"
	"math/rand"
	"strings"
	"testing"

	storetypes "cosmossdk.io/store/types"
	"github.com/ethereum/go-ethereum/common"

	clienttypes "github.com/bianjieai/tibc-go/modules/tibc/core/02-client/types"
)

type c08H struct {
	Rev uint64 `json:"rev"`
	H   uint64 `json:"h"`
}

func (h c08H) ht() clienttypes.Height { return clienttypes.NewHeight(h.Rev, h.H) }
func (h c08H) coq() string            { return "(" + coqN(h.Rev) + ", " + coqN(h.H) + ")" }
func (h c08H) lt(o c08H) bool {
	if h.Rev != o.Rev {
		return h.Rev < o.Rev
	}
	return h.H < o.H
}

type c08Cons struct {
	H    c08H   `json:"h"`
	Kind int    `json:"kind"` // 0 consensus state of the client's type, 1 of another type, 2 undecodable bytes
	Root []byte `json:"root"`
}
type c08PT struct {
	H c08H   `json:"h"`
	T uint64 `json:"t"`
}

// one call of a Verify* method, fully described
type c08In struct {
	CT       string    // tm | eth | bsc
	Fn       string    // commit | ack | clean
	Family   string    // generator family (base scenario + perturbations applied)
	Latest   c08H      // client's latest height
	Delay    uint64    // tm: TimeDelay (ns); eth: BlockDelay; bsc: number of validators (delay = 2n/3+1 blocks)
	Prefix   []byte    // tm: merkle prefix (store name); eth/bsc: contract address
	Specs    []int     // tm: proof spec ids (0 iavl, 1 tendermint, 2 smt, -1 nil)
	Cons     []c08Cons // client store: consensus states
	PT       []c08PT   // client store: processed times (tm)
	Now      uint64    // tm: uint64(ctx.BlockTime().UnixNano())
	H        c08H      // proof height
	ProofNil bool
	Proof    []byte
	Src, Dst string
	Seq      uint64
	Val      []byte // commitment / ack hash (unused by clean)
}

type c08Desc struct {
	CT, Fn, Family string
	Latest, H      c08H
	Delay, Now     uint64
	Prefix         string
	Specs          []int
	Cons           []string
	PT             []c08PT
	ProofNil       bool
	Proof          string
	Src, Dst       string
	Seq            uint64
	Val            string
	OK             bool
}

func (in *c08In) desc() c08Desc {
	cons := make([]string, len(in.Cons))
	for i, c := range in.Cons {
		cons[i] = fmt.Sprintf("%d-%d:%d:%x", c.H.Rev, c.H.H, c.Kind, c.Root)
	}
	return c08Desc{CT: in.CT, Fn: in.Fn, Family: in.Family, Latest: in.Latest, H: in.H, Delay: in.Delay, Now: in.Now, Prefix: hex.EncodeToString(in.Prefix),
		Specs: in.Specs, Cons: cons, PT: in.PT, ProofNil: in.ProofNil, Proof: hex.EncodeToString(in.Proof), Src: in.Src, Dst: in.Dst, Seq: in.Seq, Val: hex.EncodeToString(in.Val)}
}

func (in *c08In) clone() *c08In {
	c := *in
	c.Prefix = append([]byte{}, in.Prefix...)
	c.Specs = append([]int{}, in.Specs...)
	c.Cons = make([]c08Cons, len(in.Cons))
	for i, x := range in.Cons {
		c.Cons[i] = c08Cons{x.H, x.Kind, append([]byte{}, x.Root...)}
	}
	c.PT = append([]c08PT{}, in.PT...)
	c.Proof = append([]byte{}, in.Proof...)
	c.Val = append([]byte{}, in.Val...)
	return &c
}

func (in *c08In) consAt(h c08H) *c08Cons {
	for i := range in.Cons {
		if in.Cons[i].H == h {
			return &in.Cons[i]
		}
	}
	return nil
}
func (in *c08In) ptAt(h c08H) (uint64, bool) {
	for _, p := range in.PT {
		if p.H == h {
			return p.T, true
		}
	}
	return 0, false
}

func (in *c08In) claimed() []byte {
	if in.Fn == "clean" {
		return c08be64(in.Seq)
	}
	return in.Val
}

func c08Dump(store storetypes.KVStore) string {
	it := store.Iterator(nil, nil)
	defer it.Close()
	var sb strings.Builder
	for ; it.Valid(); it.Next() {
		sb.WriteString(hex.EncodeToString(it.Key()) + "=" + hex.EncodeToString(it.Value()) + ";")
	}
	return sb.String()
}

var c08CtIdx = map[string]int{"tm": 0, "eth": 1, "bsc": 2}
var c08FnIdx = map[string]int{"commit": 0, "ack": 1, "clean": 2}

type c08Ctx struct {
	t   *testing.T
	rep *Report
	cs  *CaseSet
	tm  *c08TmEnv
	eth *c08EthEnv
	r   *rand.Rand
}

func c08BlockDelay(in *c08In) uint64 {
	if in.CT == "bsc" {
		return 2*in.Delay/3 + 1
	}
	return in.Delay
}

// exec runs the real code on the input, evaluates the implementation-side oracle and emits the Coq case
func (x *c08Ctx) exec(in *c08In) bool {
	rep := x.rep
	var ok, panicked, unchanged bool
	if in.CT == "tm" {
		ok, panicked, unchanged = x.tm.run(in)
	} else {
		ok, panicked, unchanged = x.eth.run(in)
	}
	d := in.desc()
	d.OK = ok
	if panicked {
		rep.Count("panic(" + in.CT + ")")
	}
	if !unchanged {
		rep.Fail("C08:verify-writes-store", "a Verify* call modified the client store", d)
	}

	// ---------------- oracle: the property as an executable predicate over the harness's own records
	notAbove := !in.Latest.lt(in.H)
	c := in.consAt(in.H)
	good := c != nil && c.Kind == 0
	stored, honest, elapsed := false, false, false
	claimed := in.claimed()
	if in.CT == "tm" {
		key := c08Path(in.Fn, in.Src, in.Dst, in.Seq)
		var st *c08TmState
		if good {
			st = x.tm.stateByRoot(c.Root)
		}
		if st != nil && string(in.Prefix) == "tibc" {
			v, has := st.KV[key]
			stored = has && len(claimed) > 0 && bytes.Equal(v, claimed)
		}
		pt, found := in.ptAt(in.H)
		sum := new(big.Int).Add(new(big.Int).SetUint64(pt), new(big.Int).SetUint64(in.Delay))
		elapsed = found && sum.Cmp(new(big.Int).SetUint64(in.Now)) <= 0
		truth := stored && notAbove && elapsed
		sane := len(in.Specs) == 2 && in.Specs[0] == 0 && in.Specs[1] == 1
		honest = truth && sane && !in.ProofNil && bytes.Equal(in.Proof, x.tm.prove(st, key))
		if ok && !truth {
			switch {
			case stored && notAbove && found && !elapsed && sum.BitLen() > 64:
				rep.Fail("C08:tm-delay-overflow", "Tendermint client accepts a proof before processedTime+TimeDelay has passed: the uint64 sum wraps around", d)
			case strings.Contains(in.Src+in.Dst+string(in.Prefix), "%"):
				rep.Fail("C08:tm-keypath-percent-unescape", "Tendermint client verifies under the URL-unescaped key path: a value stored under another key than the protocol key of the named chains is accepted", d)
			default:
				rep.Fail("C08:tm-accepts-unproven", "Tendermint client accepted although the claimed value is not stored under the protocol key at the recorded root, or height/delay conditions do not hold", d)
			}
		}
		if honest && !ok {
			rep.Fail("C08:tm-rejects-genuine-proof", "Tendermint client rejected the genuine proof of a stored value with height and delay conditions met", d)
		}
	} else {
		var st *c08EthState
		if good {
			st = x.eth.stateByRoot(c08Hash32(c.Root))
		}
		slot := c08Slot(in.Fn, in.Src, in.Dst, in.Seq)
		word, wok := c08Word(in.Fn, in.Seq, in.Val)
		var acct *c08EthAcct
		if st != nil {
			acct = st.acct(in.Prefix)
		}
		if acct != nil && wok {
			w, has := acct.Slots[slot]
			stored = has && bytes.Equal(w, word) && len(bytes.TrimLeft(word, "\x00")) > 0
		}
		diff := new(big.Int).Sub(new(big.Int).SetUint64(in.Latest.H), new(big.Int).SetUint64(in.H.H))
		elapsed = c08BlockDelay(in) == 0 || diff.Cmp(new(big.Int).SetUint64(c08BlockDelay(in))) >= 0
		truth := stored && notAbove && elapsed
		if truth && !in.ProofNil {
			honest = bytes.Equal(in.Proof, st.prove(acct.Addr, []common.Hash{slot}).bytes())
		}
		if ok && !truth {
			switch {
			case stored && notAbove && !elapsed && in.Latest.Rev != in.H.Rev:
				rep.Fail("C08:"+in.CT+"-block-delay-cross-revision", "block delay computed as latest.RevisionHeight - proof.RevisionHeight in uint64 although the revision numbers differ: the subtraction wraps and the delay check passes", d)
			default:
				rep.Fail("C08:"+in.CT+"-accepts-unproven", "client accepted although the claimed value is not in the contract's slot at the recorded root, or height/delay conditions do not hold", d)
			}
		}
		if honest && !ok {
			if in.Fn == "clean" {
				rep.Fail("C08:"+in.CT+"-clean-commitment-never-verifies", "VerifyPacketCleanCommitment rejects the genuine proof of the counterparty's stored clean sequence (before 8edde70 it compared the 32-byte storage word with the 8-byte big-endian sequence)", d)
			} else {
				rep.Fail("C08:"+in.CT+"-rejects-genuine-proof", "client rejected the genuine account+storage proof of a stored value with height and delay conditions met", d)
			}
		}
	}

	// ---------------- Coq case
	tmproof, ethproof, kec, racc, rdec := "None", "None", "[]", "[]", "[]"
	if in.CT == "tm" {
		if ops, decd := x.tm.decode(in, rep, x.r); decd {
			items := make([]string, len(ops))
			for i, o := range ops {
				items[i] = c08TmOpCoq(o)
			}
			tmproof = "(Some " + coqList(items) + ")"
			// a re-encoded proof that still chains to the recorded root (only its shape violates the spec)
			if strings.HasPrefix(in.Family, "spec-") && len(ops) == 2 && good && ops[0].CalcOK && ops[1].CalcOK &&
				bytes.Equal(ops[1].Calc, c.Root) && bytes.Equal(ops[1].Val, ops[0].Calc) {
				rep.Count("root-preserved:" + in.Family)
				if len(ops[0].OKSpecs) == 2 || len(ops[1].OKSpecs) == 2 {
					rep.Count("root-preserved-and-conforming:" + in.Family)
				}
			}
		}
	} else {
		if dec, decd := x.eth.decode(in); decd {
			ethproof = "(Some " + dec.coq() + ")"
			kec, racc, rdec = dec.tablesCoq()
		}
	}
	specs := make([]string, len(in.Specs))
	for i, s := range in.Specs {
		specs[i] = coqOpt(s >= 0, fmt.Sprint(s))
	}
	cons := make([]string, len(in.Cons))
	for i, c := range in.Cons {
		if c.Kind == 0 {
			cons[i] = "(" + c.H.coq() + ", CGood " + hxs(c.Root) + ")"
		} else {
			cons[i] = "(" + c.H.coq() + ", CBad)"
		}
	}
	pts := make([]string, len(in.PT))
	for i, p := range in.PT {
		pts[i] = "(" + p.H.coq() + ", " + coqN(p.T) + ")"
	}
	term := strings.Join([]string{"C08", fmt.Sprint(c08CtIdx[in.CT]), fmt.Sprint(c08FnIdx[in.Fn]), in.Latest.coq(), coqN(in.Delay), hxs(in.Prefix), coqList(specs),
		coqList(cons), coqList(pts), coqN(in.Now), in.H.coq(), coqBool(in.ProofNil), hxS(in.Src), hxS(in.Dst), coqN(in.Seq), hxs(in.Val),
		tmproof, ethproof, kec, racc, rdec, coqBool(ok)}, " ")
	x.cs.Add(term, d)

	// ---------------- bookkeeping
	rep.Evaluations++
	res := "reject"
	if ok {
		res = "accept"
	}
	rep.Count(in.CT + "/" + in.Fn + "/" + res)
	rep.Count("family:" + in.Family)
	if honest {
		rep.Count("honest(" + in.CT + "/" + in.Fn + ")")
	}
	if stored {
		rep.Count("value-stored")
	} else {
		rep.Count("value-not-stored")
	}
	if good && len(in.Proof) > 0 {
		rep.Nontrivial(in.CT + in.Fn + in.Family + fmt.Sprint(in.H, in.Latest, in.Delay, in.Now, in.Seq) + in.Src + in.Dst + string(in.Val) + string(in.Proof[:c08Min(len(in.Proof), 64)]))
	}
	if len(rep.Samples) < 6 && (rep.Evaluations%97 == 1) {
		rep.Sample(6, d)
	}
	return ok
}

func c08Min(a, b int) int {
	if a < b {
		return a
	}
	return b
}

func TestC08(t *testing.T) {
	out := envOut(t)
	rep := newReport("C08")
	rep.Rule = "for each client type (07-tendermint over real IAVL proofs of a SimApp chain, 09-eth and 08-bsc over real go-ethereum account+storage tries) and each of VerifyPacketCommitment/Acknowledgement/CleanCommitment: a valid scenario (random state, key, heights, delay) and every single perturbation of value, key, function, proof (other key, other state, truncated, re-ordered, edited), recorded root, consensus entry, height bound (-1/0/+1), delay (-1/0/+1, wrap), specs/prefix/contract/account fields; then seeded random compositions of 0-2 perturbations and a malformed-proof stream; non-trivial = consensus state present at the proof height and a non-empty proof; distinct by full input"
	cs := &CaseSet{Prop: "C08", Imports: "Harness.C08", Mismatch: "c08_mismatches", Shard: 150}
	x := &c08Ctx{t: t, rep: rep, cs: cs, r: newRand(8)}
	x.tm = newC08TmEnv(t)
	x.eth = &c08EthEnv{t: t, chain: x.tm.chain}
	c08Populate(x)
	rep.Constants = map[string]string{"tm_states": fmt.Sprint(len(x.tm.states)), "eth_states": fmt.Sprint(len(x.eth.states))}

	c08Directed(x)
	c08LiveDelayStory(t, rep)
	n := 900
	if envTier() == "thorough" {
		n = 30000
	}
	c08Random(x, n)

	c08WriteCases(t, cs, out)
	rep.Write(t, out)
}

var c08HxRe = regexp.MustCompile(`\(hx "([0-9a-f]*)"\)`)

// c08WriteCases writes the case shards like CaseSet.Write, but names every byte string that occurs more than
// once in a shard (roots, keys, addresses, table entries repeat in almost every case) so that coqc parses it once.
func c08WriteCases(t *testing.T, cs *CaseSet, dir string) {
	shard := cs.Shard
	k := 0
	for i := 0; i < len(cs.Terms); i += shard {
		j := i + shard
		if j > len(cs.Terms) {
			j = len(cs.Terms)
		}
		count := map[string]int{}
		for _, term := range cs.Terms[i:j] {
			for _, m := range c08HxRe.FindAllStringSubmatch(term, -1) {
				count[m[1]]++
			}
		}
		names := map[string]string{}
		var sb strings.Builder
		sb.WriteString("From Tibc Require Import Base.Bytes " + cs.Imports + ".\n")
		sb.WriteString("Open Scope N_scope.\n")
		for _, h := range sortedKeys(count) {
			if count[h] >= 2 && len(h) >= 12 {
				names[h] = fmt.Sprintf("b%d", len(names))
				sb.WriteString("Definition " + names[h] + " := hx \"" + h + "\".\n")
			}
		}
		sb.WriteString("Definition cases := [\n")
		for n, term := range cs.Terms[i:j] {
			if n > 0 {
				sb.WriteString(";\n")
			}
			sb.WriteString(c08HxRe.ReplaceAllStringFunc(term, func(lit string) string {
				h := lit[5 : len(lit)-2]
				if nm, ok := names[h]; ok {
					return nm
				}
				if h == "" {
					return "[]"
				}
				return lit
			}))
		}
		sb.WriteString("\n].\n")
		sb.WriteString("Definition M := Eval vm_compute in (" + cs.Mismatch + " cases).\n")
		sb.WriteString("Print M.\n")
		if err := os.WriteFile(filepath.Join(dir, fmt.Sprintf("cases_%s_%03d.v", cs.Prop, k)), []byte(sb.String()), 0o644); err != nil {
			t.Fatal(err)
		}
		k++
	}
	f, err := os.Create(filepath.Join(dir, "cases_"+cs.Prop+".jsonl"))
	if err != nil {
		t.Fatal(err)
	}
	defer f.Close()
	enc := json.NewEncoder(f)
	for _, d := range cs.Descs {
		_ = enc.Encode(d)
	}
	b, _ := json.Marshal(map[string]any{"shard": shard, "n": len(cs.Terms)})
	_ = os.WriteFile(filepath.Join(dir, "cases_"+cs.Prop+".meta.json"), b, 0o644)
}
