package harness

import "testing"

func mesh(h *NetH) {
	for i := range h.chains {
		for j := range h.chains {
			if i != j {
				h.CreateClient(i, j)
			}
		}
	}
}

func TestNetSmoke(t *testing.T) {
	out := envOut(t)
	cs := &CaseSet{Prop: "SMOKE", Imports: "Harness.Net Packet.Types Packet.Keeper Net.Net", Mismatch: "net_where", Shard: 50}
	h := newNetH(t, 3)
	mesh(h)
	A, B, C := h.names[0], h.names[1], h.names[2]
	_ = C
	// direct A -> B
	p := Pkt{1, A, B, "", "tibcmock", "hello"}
	h.Send(0, p)
	h.UpdateClient(1, 0)
	h.Recv(1, p, ProofSpec{0, commitKey(p)}, h.latestKnown(1, 0))
	h.Recv(1, p, ProofSpec{0, commitKey(p)}, h.latestKnown(1, 0)) // replay
	h.UpdateClient(0, 1)
	h.Ack(0, p, "mock acknowledgement", ProofSpec{1, ackKey(p)}, h.latestKnown(0, 1))
	h.Ack(0, p, "mock acknowledgement", ProofSpec{1, ackKey(p)}, h.latestKnown(0, 1)) // replay
	// relayed A -> (B) -> C, allowed
	h.SetRules(1, []string{A + "," + C + ",tibcmock"})
	q := Pkt{1, A, C, B, "tibcmock", "via-relay"}
	h.Send(0, q)
	h.UpdateClient(1, 0)
	h.Recv(1, q, ProofSpec{0, commitKey(q)}, h.latestKnown(1, 0))
	h.UpdateClient(2, 1)
	h.Recv(2, q, ProofSpec{1, commitKey(q)}, h.latestKnown(2, 1))
	h.UpdateClient(1, 2)
	h.Ack(1, q, "mock acknowledgement", ProofSpec{2, ackKey(q)}, h.latestKnown(1, 2))
	h.UpdateClient(0, 1)
	h.Ack(0, q, "mock acknowledgement", ProofSpec{1, ackKey(q)}, h.latestKnown(0, 1))
	// unauthorised relayed packet
	r := Pkt{2, A, C, B, "nft", "refused"}
	h.Send(0, r)
	h.UpdateClient(1, 0)
	h.Recv(1, r, ProofSpec{0, commitKey(r)}, h.latestKnown(1, 0))
	h.UpdateClient(0, 1)
	h.Ack(0, r, "error:unauthorized", ProofSpec{1, ackKey(r)}, h.latestKnown(0, 1))
	// clean A->B up to 1
	h.Clean(0, CPkt{1, "", B, ""})
	h.UpdateClient(1, 0)
	h.RecvClean(1, CPkt{1, A, B, ""}, ProofSpec{0, cleanKey(A, B)}, h.latestKnown(1, 0))
	h.Recv(1, p, ProofSpec{0, commitKey(p)}, h.latestKnown(1, 0)) // replay after clean
	cs.Add(h.CaseTerm(), h.Descs)
	cs.Write(t, out)
	for _, d := range h.Descs {
		t.Logf("%-9s chain=%d ok=%v ev=%v err=%.80s", d.Op, d.Chain, d.OK, d.Events, d.Err)
	}
}
