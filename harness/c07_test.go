package harness

// C07 — Tendermint client accepts a header exactly when the light-client rule allows it.
//
// For every generated (client state, header, block time) the REAL code is run twice:
//   via 0: ClientState.CheckHeaderAndUpdateState on the real client store (no rollback around it)
//   via 1: 02-client Keeper.UpdateClient (Status gate + writes), on the store the scenario continues with
// and the state projection (client state, consensus states, processed times, iteration keys) is read
// back from the store before and after.  Each run becomes one Coq case (model evaluated by coqc) and is
// also judged by an oracle written directly from the property text (c07Oracle), which does not use the
// model's prefix scans: it sums validly signed power over the whole commit with the real verifier.

import (
	"bytes"
	"encoding/binary"
	"fmt"
	"math/big"
	"sort"
	"strings"
	"testing"
	"time"

	storetypes "cosmossdk.io/store/types"
	"github.com/cosmos/cosmos-sdk/codec"
	sdk "github.com/cosmos/cosmos-sdk/types"

	tmproto "github.com/cometbft/cometbft/proto/tendermint/types"
	tmtypes "github.com/cometbft/cometbft/types"

	clientkeeper "github.com/bianjieai/tibc-go/modules/tibc/core/02-client/keeper"
	clienttypes "github.com/bianjieai/tibc-go/modules/tibc/core/02-client/types"
	tibctmtypes "github.com/bianjieai/tibc-go/modules/tibc/light-clients/07-tendermint/types"
	tibctesting "github.com/bianjieai/tibc-go/modules/tibc/testing"
)

// ---- abstraction of a header (inputs of the model) ---------------------------------

type c07AbsVal struct {
	Addr  []byte
	Power int64
}

type c07AbsVS struct {
	StructOK bool // decoding / keys / addresses / proposer fine (numeric conditions aside)
	RealOK   bool // tmtypes.ValidatorSetFromProto succeeded
	Decoded  *tmtypes.ValidatorSet
	Vals     []c07AbsVal
	Hash     []byte
}

type c07AbsSig struct {
	Commit bool
	Addr   []byte
	OkOwn  bool
	OkTr   bool
}

type c07Abs struct {
	ChainID         string
	Height          uint64
	Time            time.Time
	ValsHash        []byte
	NextValsHash    []byte
	AppHash         []byte
	StructOK        bool
	CommitHeight    uint64
	CommitForHeader bool
	Sigs            []c07AbsSig
	Vals            c07AbsVS
	TrustedHeight   clienttypes.Height
	Trusted         c07AbsVS
}

func c07Safe(f func() error) (err error) {
	defer func() {
		if r := recover(); r != nil {
			err = fmt.Errorf("panic: %v", r)
		}
	}()
	return f()
}

func c07DecodeVS(p *tmproto.ValidatorSet) c07AbsVS {
	var a c07AbsVS
	if p == nil {
		return a
	}
	for _, v := range p.Validators {
		if v != nil {
			a.Vals = append(a.Vals, c07AbsVal{append([]byte{}, v.Address...), v.VotingPower})
		}
	}
	var vs *tmtypes.ValidatorSet
	err := c07Safe(func() error {
		var e error
		vs, e = tmtypes.ValidatorSetFromProto(p)
		return e
	})
	if err == nil {
		a.StructOK, a.RealOK, a.Decoded = true, true, vs
		a.Hash = vs.Hash()
		return a
	}
	// the same set with the validators' powers neutralised: does it decode?
	q := *p
	q.Validators = nil
	for _, v := range p.Validators {
		if v == nil {
			q.Validators = append(q.Validators, nil)
			continue
		}
		w := *v
		w.VotingPower = 1
		q.Validators = append(q.Validators, &w)
	}
	q.TotalVotingPower = 0
	err2 := c07Safe(func() error {
		_, e := tmtypes.ValidatorSetFromProto(&q)
		return e
	})
	a.StructOK = err2 == nil
	return a
}

func c07NumericOK(vs []c07AbsVal) bool {
	if len(vs) == 0 {
		return false
	}
	tot := new(big.Int)
	for _, v := range vs {
		if v.Power < 0 {
			return false
		}
		tot.Add(tot, big.NewInt(v.Power))
	}
	return tot.Cmp(big.NewInt(tmtypes.MaxTotalVotingPower)) <= 0
}

func c07Abstract(h *tibctmtypes.Header) (a c07Abs) {
	a.TrustedHeight = h.TrustedHeight
	a.Vals = c07DecodeVS(h.ValidatorSet)
	a.Trusted = c07DecodeVS(h.TrustedValidators)
	if h.SignedHeader == nil || h.SignedHeader.Header == nil {
		return a
	}
	ph := h.SignedHeader.Header
	a.ChainID = ph.ChainID
	a.Height = uint64(ph.Height)
	a.Time = ph.Time
	a.ValsHash, a.NextValsHash, a.AppHash = ph.ValidatorsHash, ph.NextValidatorsHash, ph.AppHash
	if h.SignedHeader.Commit == nil {
		return a
	}
	var sh *tmtypes.SignedHeader
	err := c07Safe(func() error {
		var e error
		sh, e = tmtypes.SignedHeaderFromProto(h.SignedHeader)
		return e
	})
	if err != nil || sh == nil || sh.Header == nil || sh.Commit == nil {
		return a
	}
	a.CommitHeight = uint64(sh.Commit.Height)
	a.CommitForHeader = bytes.Equal(sh.Commit.BlockID.Hash, sh.Header.Hash())
	a.StructOK = c07Safe(func() error { return sh.Header.ValidateBasic() }) == nil &&
		c07Safe(func() error { return sh.Commit.ValidateBasic() }) == nil
	for i, s := range sh.Commit.Signatures {
		e := c07AbsSig{Commit: s.BlockIDFlag == tmtypes.BlockIDFlagCommit, Addr: s.ValidatorAddress}
		if s.BlockIDFlag != tmtypes.BlockIDFlagAbsent && len(s.Signature) > 0 {
			_ = c07Safe(func() error {
				sb := sh.Commit.VoteSignBytes(a.ChainID, int32(i))
				if a.Vals.Decoded != nil && i < len(a.Vals.Decoded.Validators) {
					e.OkOwn = a.Vals.Decoded.Validators[i].PubKey.VerifySignature(sb, s.Signature)
				}
				if a.Trusted.Decoded != nil {
					if _, v := a.Trusted.Decoded.GetByAddress(s.ValidatorAddress); v != nil {
						e.OkTr = v.PubKey.VerifySignature(sb, s.Signature)
					}
				}
				return nil
			})
		}
		a.Sigs = append(a.Sigs, e)
	}
	return a
}

// ---- Coq terms ---------------------------------------------------------------------------

func c07Z(b *big.Int) string { return "(" + b.String() + ")%Z" }
func c07Zi(v int64) string   { return c07Z(big.NewInt(v)) }
func c07TimeNs(t time.Time) *big.Int {
	b := big.NewInt(t.Unix())
	b.Mul(b, big.NewInt(1000000000))
	return b.Add(b, big.NewInt(int64(t.Nanosecond())))
}
func c07Height(h clienttypes.Height) string {
	return "(Hh " + coqN(h.RevisionNumber) + " " + coqN(h.RevisionHeight) + ")"
}
func c07VSTerm(v c07AbsVS) string {
	items := make([]string, len(v.Vals))
	for i, x := range v.Vals {
		items[i] = "Val " + hxs(x.Addr) + " " + c07Zi(x.Power)
	}
	return "(VS " + coqBool(v.StructOK) + " " + coqList(items) + " " + hxs(v.Hash) + ")"
}
func c07HeaderTerm(a c07Abs) string {
	sigs := make([]string, len(a.Sigs))
	for i, s := range a.Sigs {
		sigs[i] = "CSig " + coqBool(s.Commit) + " " + hxs(s.Addr) + " " + coqBool(s.OkOwn) + " " + coqBool(s.OkTr)
	}
	own, tr := c07VSTerm(a.Vals), c07VSTerm(a.Trusted)
	pre := ""
	if own == tr { // bind the shared validator set once
		pre, own, tr = "let v := "+own+" in ", "v", "v"
	}
	return "(" + pre + "Header " + hxS(a.ChainID) + " " + coqN(a.Height) + " " + c07Z(c07TimeNs(a.Time)) + " " +
		hxs(a.ValsHash) + " " + hxs(a.NextValsHash) + " " + hxs(a.AppHash) + " " + coqBool(a.StructOK) + " " +
		coqN(a.CommitHeight) + " " + coqBool(a.CommitForHeader) + " " + coqList(sigs) + " " +
		own + " " + c07Height(a.TrustedHeight) + " " + tr + ")"
}

// ---- state projection ---------------------------------------------------------------------

type c07ConsE struct {
	H  clienttypes.Height
	CS *tibctmtypes.ConsensusState
}
type c07PtE struct {
	H clienttypes.Height
	T uint64
}
type c07State struct {
	Client *tibctmtypes.ClientState // nil: no client state stored
	Cons   []c07ConsE
	Ptime  []c07PtE
	Iter   []clienttypes.Height
	Raw    map[string]string
	Other  int // keys of an unknown family
}

func c07HeightOfKey(b []byte) clienttypes.Height {
	return clienttypes.NewHeight(binary.BigEndian.Uint64(b[:8]), binary.BigEndian.Uint64(b[8:16]))
}

func c07Dump(store storetypes.KVStore, cdc codec.BinaryCodec) c07State {
	st := c07State{Raw: map[string]string{}}
	it := store.Iterator(nil, nil)
	defer it.Close()
	const cp = "consensusStates/"
	const ip = "iterateConsensusStates"
	const pt = "/processedTime"
	for ; it.Valid(); it.Next() {
		k, v := it.Key(), it.Value()
		st.Raw[string(k)] = string(v)
		ks := string(k)
		switch {
		case ks == "clientState":
			cs, ok := clienttypes.MustUnmarshalClientState(cdc, v).(*tibctmtypes.ClientState)
			if ok {
				st.Client = cs
			} else {
				st.Other++
			}
		case strings.HasPrefix(ks, cp) && len(k) == len(cp)+16:
			c, ok := clienttypes.MustUnmarshalConsensusState(cdc, v).(*tibctmtypes.ConsensusState)
			if ok {
				st.Cons = append(st.Cons, c07ConsE{c07HeightOfKey(k[len(cp):]), c})
			} else {
				st.Other++
			}
		case strings.HasPrefix(ks, cp) && len(k) == len(cp)+16+len(pt) && strings.HasSuffix(ks, pt):
			st.Ptime = append(st.Ptime, c07PtE{c07HeightOfKey(k[len(cp):]), sdk.BigEndianToUint64(v)})
		case strings.HasPrefix(ks, ip) && len(k) == len(ip)+16:
			st.Iter = append(st.Iter, c07HeightOfKey(k[len(ip):]))
		default:
			st.Other++
		}
	}
	less := func(a, b clienttypes.Height) bool { return a.LT(b) }
	sort.Slice(st.Cons, func(i, j int) bool { return less(st.Cons[i].H, st.Cons[j].H) })
	sort.Slice(st.Ptime, func(i, j int) bool { return less(st.Ptime[i].H, st.Ptime[j].H) })
	sort.Slice(st.Iter, func(i, j int) bool { return less(st.Iter[i], st.Iter[j]) })
	return st
}

func (s c07State) consistent() bool {
	same := len(s.Cons) == len(s.Ptime) && len(s.Cons) == len(s.Iter)
	for i := 0; same && i < len(s.Cons); i++ {
		same = s.Cons[i].H.EQ(s.Ptime[i].H) && s.Cons[i].H.EQ(s.Iter[i])
	}
	return same
}

func (s c07State) cons(h clienttypes.Height) *tibctmtypes.ConsensusState {
	for _, e := range s.Cons {
		if e.H.EQ(h) {
			return e.CS
		}
	}
	return nil
}

func c07ClientTerm(c *tibctmtypes.ClientState) string {
	return "(Client " + hxS(c.ChainId) + " " + coqN(c.TrustLevel.Numerator) + " " + coqN(c.TrustLevel.Denominator) + " " +
		c07Zi(int64(c.TrustingPeriod)) + " " + c07Zi(int64(c.MaxClockDrift)) + " " + c07Height(c.LatestHeight) + ")"
}
func c07ConsTerm(c *tibctmtypes.ConsensusState) string {
	return "(Cons " + c07Z(c07TimeNs(c.Timestamp)) + " " + hxs(c.Root.Hash) + " " + hxs(c.NextValidatorsHash) + ")"
}
func c07StoreTerm(s c07State) string {
	cons := make([]string, len(s.Cons))
	for i, e := range s.Cons {
		cons[i] = "(" + c07Height(e.H) + ", " + c07ConsTerm(e.CS) + ")"
	}
	pts := make([]string, len(s.Ptime))
	for i, e := range s.Ptime {
		pts[i] = "(" + c07Height(e.H) + ", " + coqN(e.T) + ")"
	}
	its := make([]string, len(s.Iter))
	for i, e := range s.Iter {
		its[i] = c07Height(e)
	}
	return "(Store " + coqList(cons) + " " + coqList(pts) + " " + coqList(its) + ")"
}
func c07KTerm(cl *tibctmtypes.ClientState, s c07State) string {
	if cl == nil {
		return "None"
	}
	return "(Some (" + c07ClientTerm(cl) + ", " + c07StoreTerm(s) + "))"
}

// ---- the property as an executable predicate (implementation-side oracle) ---------------------

type c07Verdict struct {
	Sound                                  []string // conditions of the rule that do NOT hold (acceptance would be unsound)
	Complete                               bool     // every condition holds and every counted signature is valid: must be accepted
	OwnSigned, OwnTotal, TrSigned, TrTotal int64
	Adjacent                               bool
	Degenerate                             bool
	HeaderH                                clienttypes.Height
}

// c07Rule evaluates the light-client rule of the property on (state before, header, now).
// Validly signed power is summed over the WHOLE commit (each validator once), with the real
// signature verifier (through the abstraction), not by a prefix scan.
func c07Rule(pre c07State, cl *tibctmtypes.ClientState, a c07Abs, now time.Time, keeper bool) (v c07Verdict) {
	bad := func(s string) { v.Sound = append(v.Sound, s) }
	allValid := true
	// revision of the header
	var rev uint64
	if err := c07Safe(func() error { rev = clienttypes.ParseChainID(a.ChainID); return nil }); err != nil {
		bad("header chain id does not parse")
	}
	v.HeaderH = clienttypes.NewHeight(rev, a.Height)
	co := pre.cons(a.TrustedHeight)
	if co == nil {
		bad("no consensus state stored at the trusted height")
		return v
	}
	if !a.Trusted.RealOK || !bytes.Equal(a.Trusted.Hash, co.NextValidatorsHash) {
		bad("trusted validators are not the ones the trusted state committed to")
	}
	if rev != a.TrustedHeight.RevisionNumber {
		bad("different revision")
	}
	if !(a.Height > a.TrustedHeight.RevisionHeight) {
		bad("not newer than the trusted state")
	}
	want := cl.ChainId
	if clienttypes.IsRevisionFormat(want) {
		want, _ = clienttypes.SetRevisionNumber(want, rev)
	}
	if a.ChainID != want {
		bad("header of another chain")
	}
	if !a.StructOK || a.CommitHeight != a.Height || !a.CommitForHeader {
		bad("malformed signed header / commit not for this header")
	}
	if !a.Vals.RealOK || !bytes.Equal(a.ValsHash, a.Vals.Hash) || len(a.Sigs) != len(a.Vals.Vals) {
		bad("validator set does not belong to the header")
	}
	// own set: validly signed Commit power
	for i, s := range a.Sigs {
		if s.Commit && i < len(a.Vals.Vals) {
			if s.OkOwn {
				v.OwnSigned += a.Vals.Vals[i].Power
			} else {
				allValid = false
			}
		}
	}
	for _, x := range a.Vals.Vals {
		v.OwnTotal += x.Power
	}
	if !(new(big.Int).Mul(big.NewInt(3), big.NewInt(v.OwnSigned)).Cmp(new(big.Int).Mul(big.NewInt(2), big.NewInt(v.OwnTotal))) > 0) {
		bad("not more than 2/3 of the header's own validators signed")
	}
	v.Adjacent = a.Height == a.TrustedHeight.RevisionHeight+1
	if v.Adjacent {
		if !bytes.Equal(a.ValsHash, co.NextValidatorsHash) {
			bad("adjacent header with a validator set other than the committed next validators")
		}
	} else {
		seen := map[int]bool{}
		for _, s := range a.Sigs {
			if !s.Commit {
				continue
			}
			idx := -1
			for j, x := range a.Trusted.Vals {
				if bytes.Equal(x.Addr, s.Addr) {
					idx = j
					break
				}
			}
			if idx < 0 {
				continue
			}
			if seen[idx] {
				allValid = false // double vote: never required to be accepted
				continue
			}
			if s.OkTr {
				seen[idx] = true
				v.TrSigned += a.Trusted.Vals[idx].Power
			} else {
				allValid = false
			}
		}
		for _, x := range a.Trusted.Vals {
			v.TrTotal += x.Power
		}
		num, den := cl.TrustLevel.Numerator, cl.TrustLevel.Denominator
		if den == 0 || num >= 1<<62 || den >= 1<<62 {
			// trust level that no validated client state can carry (int64 conversions in cometbft decide): not judged
			allValid = false
			v.Degenerate = true
		} else {
			l := new(big.Int).Mul(big.NewInt(v.TrSigned), new(big.Int).SetUint64(den))
			r := new(big.Int).Mul(big.NewInt(v.TrTotal), new(big.Int).SetUint64(num))
			if l.Cmp(r) <= 0 {
				bad("not more than the trust level of the trusted validators signed")
			}
			if r.Cmp(big.NewInt(1<<62)) >= 0 {
				allValid = false // int64 overflow guard of cometbft may refuse: not required to be accepted
			}
		}
	}
	if !a.Time.After(co.Timestamp) {
		bad("header time not after the trusted state's time")
	}
	if !a.Time.Before(now.Add(cl.MaxClockDrift)) {
		bad("header time beyond now + max clock drift")
	}
	if !co.Timestamp.Add(cl.TrustingPeriod).After(now) {
		bad("trusted state is outside the trusting period")
	}
	if keeper {
		lc := pre.cons(cl.LatestHeight)
		if lc == nil || !lc.Timestamp.Add(cl.TrustingPeriod).After(now) {
			bad("client is not active (expired / no latest consensus state)")
		}
	}
	// store consistency needed by the pruning step
	if len(pre.Iter) > 0 && pre.cons(pre.Iter[0]) == nil {
		bad("damaged store: earliest iteration key without a consensus state")
	}
	v.Complete = len(v.Sound) == 0 && allValid
	return v
}

type c07Desc struct {
	Family  string   `json:"family"`
	Via     string   `json:"via"`
	Now     string   `json:"now"`
	Client  string   `json:"client"`
	Stored  []string `json:"stored_heights"`
	Header  string   `json:"header"`
	OK      bool     `json:"accepted"`
	Failing []string `json:"rule_conditions_failing"`
}

// ---- environment ----------------------------------------------------------------------------

type c07Env struct {
	t     *testing.T
	rep   *Report
	cs    *CaseSet
	chain *tibctesting.TestChain
	k     clientkeeper.Keeper
	cdc   codec.BinaryCodec
	nscen int
}

// one scenario = one client (own chain name) on a private branch of the chain state
type c07Scen struct {
	env    *c07Env
	ctx    sdk.Context
	name   string
	noCase bool // judged by the oracle only (no Coq case emitted)
}

func (e *c07Env) newScen() *c07Scen {
	ctx, _ := e.chain.GetContext().CacheContext()
	e.nscen++
	return &c07Scen{env: e, ctx: ctx, name: fmt.Sprintf("c07-%d", e.nscen)}
}

func (s *c07Scen) store(ctx sdk.Context) storetypes.KVStore { return s.env.k.ClientStore(ctx, s.name) }

func (s *c07Scen) create(now time.Time, cl *tibctmtypes.ClientState, co *tibctmtypes.ConsensusState) {
	if err := s.env.k.CreateClient(s.ctx.WithBlockTime(now), s.name, cl, co); err != nil {
		s.env.t.Fatalf("CreateClient: %v", err)
	}
}

// upgrade goes through the real Keeper.UpgradeClient (client state + consensus state at the new latest
// height; no processed time / iteration key).  withMetadata additionally runs ClientState.Initialize,
// which is what writes the metadata when a client is created.
func (s *c07Scen) upgrade(now time.Time, cl *tibctmtypes.ClientState, co *tibctmtypes.ConsensusState, withMetadata bool) {
	ctx := s.ctx.WithBlockTime(now)
	if err := s.env.k.UpgradeClient(ctx, s.name, cl, co); err != nil {
		s.env.t.Fatalf("UpgradeClient: %v", err)
	}
	if withMetadata {
		if err := cl.Initialize(ctx, s.env.cdc, s.store(ctx), co); err != nil {
			s.env.t.Fatalf("Initialize: %v", err)
		}
	}
}

func c07HeaderSummary(a c07Abs, v c07Verdict) string {
	flags := ""
	for _, s := range a.Sigs {
		switch {
		case !s.Commit:
			flags += "-"
		case s.OkOwn:
			flags += "S"
		default:
			flags += "x"
		}
	}
	return fmt.Sprintf("chain=%q h=%d t=%s trusted=%s nvals=%d commit=%s own=%d/%d trusted=%d/%d adjacent=%v",
		a.ChainID, a.Height, a.Time.UTC().Format(time.RFC3339Nano), a.TrustedHeight, len(a.Vals.Vals), flags,
		v.OwnSigned, v.OwnTotal, v.TrSigned, v.TrTotal, v.Adjacent)
}

func c07RawEqual(a, b map[string]string) bool {
	if len(a) != len(b) {
		return false
	}
	for k, v := range a {
		if w, ok := b[k]; !ok || w != v {
			return false
		}
	}
	return true
}

// step runs one header against the scenario's client, first directly on a throw-away branch,
// then through the keeper on the scenario state.  Returns whether the keeper accepted.
func (s *c07Scen) step(family string, now time.Time, h *tibctmtypes.Header) bool {
	e := s.env
	a := c07Abstract(h)
	hterm := c07HeaderTerm(a)
	if a.Vals.RealOK != (a.Vals.StructOK && c07NumericOK(a.Vals.Vals)) || a.Trusted.RealOK != (a.Trusted.StructOK && c07NumericOK(a.Trusted.Vals)) {
		e.rep.Fail("C07:harness-abstraction", "validator-set abstraction (structure + numeric conditions) disagrees with ValidatorSetFromProto", family)
	}
	var keeperOK bool
	// the combined Coq case: pre-state (identical for both calls), observations of both calls
	var (
		preTerm            string
		dRun, dOK, kOK     bool
		dPost, dRet, kPost = "None", "None", "None"
		descs              []c07Desc
	)
	for via := 0; via < 2; via++ {
		ctx := s.ctx.WithBlockTime(now)
		if via == 0 {
			ctx, _ = ctx.CacheContext()
		}
		store := s.store(ctx)
		pre := c07Dump(store, e.cdc)
		var (
			ok      bool
			retCl   *tibctmtypes.ClientState
			retCons *tibctmtypes.ConsensusState
		)
		if via == 0 {
			if pre.Client == nil {
				continue
			}
			err := c07Safe(func() error {
				ncl, nco, err := pre.Client.CheckHeaderAndUpdateState(ctx, e.cdc, store, h)
				if err == nil {
					retCl, _ = ncl.(*tibctmtypes.ClientState)
					retCons, _ = nco.(*tibctmtypes.ConsensusState)
				}
				return err
			})
			ok = err == nil
		} else {
			err := c07Safe(func() error { return e.k.UpdateClient(ctx, s.name, h) })
			ok = err == nil
			keeperOK = ok
		}
		post := c07Dump(store, e.cdc)
		postCl := post.Client
		if via == 0 {
			postCl = pre.Client
			if ok {
				postCl = retCl
			}
		}
		// ---- oracle
		viaName := []string{"direct", "keeper"}[via]
		stored := make([]string, len(pre.Cons))
		for i, c := range pre.Cons {
			stored[i] = c.H.String()
		}
		desc := c07Desc{Family: family, Via: viaName, Now: now.UTC().Format(time.RFC3339Nano), Stored: stored, OK: ok}
		var verdict c07Verdict
		if pre.Client != nil {
			verdict = c07Rule(pre, pre.Client, a, now, via == 1)
			desc.Client = fmt.Sprintf("chain=%q trust=%d/%d period=%s drift=%s latest=%s", pre.Client.ChainId, pre.Client.TrustLevel.Numerator,
				pre.Client.TrustLevel.Denominator, pre.Client.TrustingPeriod, pre.Client.MaxClockDrift, pre.Client.LatestHeight)
			desc.Failing = verdict.Sound
		} else {
			verdict.Sound = []string{"no client"}
		}
		desc.Header = c07HeaderSummary(a, verdict)
		if pre.Other != 0 || post.Other != 0 {
			e.rep.Fail("C07:unknown-store-key", "client store holds a key outside the modelled families", desc)
		}
		// message-level validation (MsgUpdateClient.ValidateBasic -> Header.ValidateBasic runs before the
		// handler; the executors above call the client / keeper directly): it must not refuse a header
		// the light-client rule accepts, or "accepted if and only if" fails for real transactions.
		// (What it lets through is re-checked by checkValidity, so a laxer ValidateBasic is harmless.)
		if hv, isHdr := interface{}(h).(interface{ ValidateBasic() error }); isHdr {
			vbErr := c07Safe(func() error { return hv.ValidateBasic() })
			if ok && vbErr != nil {
				e.rep.Fail("C07:message-validation-refuses-valid-header", "Header.ValidateBasic refuses a header that the client accepts: through MsgUpdateClient this valid header is rejected: "+vbErr.Error(), desc)
			}
		}
		if ok && len(verdict.Sound) > 0 {
			e.rep.Fail("C07:accepted-against-rule", "header accepted although the light-client rule does not allow it: "+strings.Join(verdict.Sound, "; "), desc)
		}
		if !ok && verdict.Complete {
			e.rep.Fail("C07:valid-header-rejected", "header satisfying the light-client rule (all counted signatures valid) rejected", desc)
		}
		if !ok && !c07RawEqual(pre.Raw, post.Raw) {
			e.rep.Fail("C07:rejection-changed-state", "client store changed by a rejected update", desc)
		}
		if ok && pre.Client != nil {
			hh := verdict.HeaderH
			wantLatest := pre.Client.LatestHeight
			if hh.GT(wantLatest) {
				wantLatest = hh
			}
			if postCl == nil || !postCl.LatestHeight.EQ(wantLatest) || postCl.LatestHeight.LT(pre.Client.LatestHeight) {
				e.rep.Fail("C07:latest-height", "latest height after acceptance is not max(latest, header height)", desc)
			}
			got := retCons
			if via == 1 {
				got = post.cons(hh)
			}
			if got == nil || !got.Timestamp.Equal(a.Time) || !bytes.Equal(got.Root.Hash, a.AppHash) || !bytes.Equal(got.NextValidatorsHash, a.NextValsHash) {
				e.rep.Fail("C07:stored-consensus-state", "consensus state for the header height is not (header time, app hash, next validators hash)", desc)
			}
			// metadata of the header height: processed time = block time, iteration key present
			metaOK := false
			for _, pt := range post.Ptime {
				if pt.H.EQ(hh) && pt.T == uint64(now.UnixNano()) {
					metaOK = true
				}
			}
			iterOK := false
			for _, ih := range post.Iter {
				if ih.EQ(hh) {
					iterOK = true
				}
			}
			if !metaOK || !iterOK {
				e.rep.Fail("C07:metadata", "processed time (= block time, ns) or iteration key of the header height missing after acceptance", desc)
			}
			// through the keeper the three key families must cover the same heights afterwards
			if via == 1 && pre.consistent() {
				if !post.consistent() {
					e.rep.Fail("C07:store-inconsistent", "consensus states, processed times and iteration keys do not cover the same heights after an accepted update", desc)
				}
			}
			// every other stored consensus state is untouched, except that the earliest one may be pruned if expired
			for i, c := range pre.Cons {
				if c.H.EQ(hh) && via == 1 {
					continue
				}
				pc := post.cons(c.H)
				if pc != nil {
					if !pc.Timestamp.Equal(c.CS.Timestamp) || !bytes.Equal(pc.Root.Hash, c.CS.Root.Hash) || !bytes.Equal(pc.NextValidatorsHash, c.CS.NextValidatorsHash) {
						e.rep.Fail("C07:other-state-touched", "a consensus state of another height changed", desc)
					}
					continue
				}
				exp := !c.CS.Timestamp.Add(pre.Client.TrustingPeriod).After(now)
				if !(i == 0 && exp) {
					e.rep.Fail("C07:other-state-touched", "a consensus state that is not the earliest expired one disappeared", desc)
				}
			}
		}
		// ---- observations for the model
		if !s.noCase {
			preTerm = c07KTerm(pre.Client, pre)
			postTerm := c07KTerm(postCl, post)
			if via == 0 {
				dRun, dOK, dPost = true, ok, postTerm
				if ok && retCons != nil {
					dRet = "(Some " + c07ConsTerm(retCons) + ")"
				}
			} else {
				kOK, kPost = ok, postTerm
			}
			descs = append(descs, desc)
		}
		if s.noCase {
			e.rep.Count("oracle-only:" + viaName)
		}
		e.rep.Evaluations++
		// ---- distribution
		res := "reject"
		if ok {
			res = "accept"
		}
		e.rep.Count(viaName + ":" + res)
		e.rep.Count("family:" + strings.SplitN(family, "/", 2)[0] + ":" + res)
		if via == 0 {
			e.rep.Count(fmt.Sprintf("nvals:%d", len(a.Vals.Vals)))
			if verdict.Adjacent {
				e.rep.Count("adjacent:" + res)
			} else {
				e.rep.Count("nonadjacent:" + res)
			}
			if verdict.OwnTotal > 0 {
				need := verdict.OwnTotal * 2 / 3
				switch {
				case verdict.OwnSigned == need:
					e.rep.Count("own-power:exactly-2/3-floor")
				case verdict.OwnSigned == need+1:
					e.rep.Count("own-power:2/3-floor+1")
				case verdict.OwnSigned > need:
					e.rep.Count("own-power:above")
				default:
					e.rep.Count("own-power:below")
				}
			}
			if !verdict.Adjacent && verdict.TrTotal > 0 && pre.Client != nil && pre.Client.TrustLevel.Denominator != 0 && pre.Client.TrustLevel.Numerator < 1<<20 {
				need := verdict.TrTotal * int64(pre.Client.TrustLevel.Numerator) / int64(pre.Client.TrustLevel.Denominator)
				switch {
				case verdict.TrSigned == need:
					e.rep.Count("trusted-power:exactly-level-floor")
				case verdict.TrSigned == need+1:
					e.rep.Count("trusted-power:level-floor+1")
				case verdict.TrSigned > need:
					e.rep.Count("trusted-power:above")
				default:
					e.rep.Count("trusted-power:below")
				}
			}
			for _, c := range verdict.Sound {
				e.rep.Count("rule-fails:" + c)
			}
			if len(verdict.Sound) == 1 {
				e.rep.Count("single-condition-failing")
			}
			e.rep.Count(fmt.Sprintf("stored-states:%d", len(pre.Cons)))
		}
		e.rep.Nontrivial(fmt.Sprintf("%s|%s|%v", desc.Header, desc.Now, ok))
		if ok || len(verdict.Sound) == 1 {
			e.rep.Sample(8, desc)
		}
	}
	if !s.noCase {
		// shared sub-terms are bound once (the post state of a rejected call is the pre state)
		ref := func(t string) string {
			if t == preTerm {
				return "p"
			}
			return t
		}
		term := "(let p := " + preTerm + " in C07 " + c07Z(c07TimeNs(now)) + " p " + hterm + " " + coqBool(dRun) + " " + coqBool(dOK) + " " +
			ref(dPost) + " " + dRet + " " + coqBool(kOK) + " " + ref(kPost) + ")"
		if !dRun {
			term = "(let p := " + preTerm + " in C07 " + c07Z(c07TimeNs(now)) + " p " + hterm + " false false p None " + coqBool(kOK) + " " + ref(kPost) + ")"
		}
		e.cs.Add(term, descs)
	}
	return keeperOK
}

func TestC07(t *testing.T) {
	out := envOut(t)
	rep := newReport("C07")
	rep.Rule = "real ed25519 (and some secp256k1) validator sets of 1-7 members; directed families: valid adjacent / non-adjacent update + every single-field perturbation " +
		"(trusted height, trusted validators, revision / chain id, height, time == trusted / now+drift / expiry -1/0/+1 ns, signer subsets at floor(2/3), +1, trust-level floor, +1, " +
		"bad signature before / after the crossing point, nil and absent votes, double votes, commit for another block / height, malformed sets, power cap, update into the past, " +
		"conflicting header, pruning, expired / unknown client); then seeded random histories (mostly valid + a malformed stream). Every input runs through " +
		"ClientState.CheckHeaderAndUpdateState directly and through Keeper.UpdateClient; a further stream of random histories is judged by the oracle only (no Coq case); " +
		"non-trivial = distinct (header, time, verdict)"
	cs := &CaseSet{Prop: "C07", Imports: "Clients.Tm Harness.C07", Mismatch: "c07_mismatches", Shard: 100}
	coord := tibctesting.NewCoordinator(t, 1)
	chain := coord.GetChain(tibctesting.GetChainID(0))
	env := &c07Env{t: t, rep: rep, cs: cs, chain: chain, k: chain.App.TIBCKeeper.ClientKeeper, cdc: chain.App.AppCodec()}
	rep.Constants = map[string]string{
		"MaxTotalVotingPower":            fmt.Sprint(tmtypes.MaxTotalVotingPower),
		"KeyIterateConsensusStatePrefix": tibctmtypes.KeyIterateConsensusStatePrefix,
		"KeyProcessedTime":               string(tibctmtypes.KeyProcessedTime),
	}
	c07Directed(env)
	c07Random(env)
	cs.Write(t, out)
	rep.Write(t, out)
}
