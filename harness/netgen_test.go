package harness

// Generators (directed families + seeded random histories) and
// implementation-side oracles for the packet-layer properties.

import (
	"fmt"
	"math/rand"
	"strings"
	"testing"
	"time"
)

// ---- oracle over the recorded implementation history ------------------------------

type pktKey struct {
	Src, Dst string
	Seq      uint64
}

type netOracle struct {
	h *NetH
	// events seen per chain
	sent      map[int][]Pkt            // send_packet events per chain (own sends and relay re-commits)
	ackWrit   map[int]map[pktKey]string // write_acknowledgement per chain
	delivered map[int]map[pktKey]int   // accepted recv at destination chain
	recvd     map[int]map[pktKey]int   // accepted recv per chain
	acked     map[int]map[pktKey]int   // accepted ack per chain
	cleaned   map[int]map[[2]string]uint64
	nextSeq   map[[2]string]uint64
	rules     map[int][]string // whitelist committed on each chain
	fails     []OracleFailure
}

func newNetOracle(h *NetH) *netOracle {
	return &netOracle{h: h, sent: map[int][]Pkt{}, ackWrit: map[int]map[pktKey]string{}, delivered: map[int]map[pktKey]int{},
		recvd: map[int]map[pktKey]int{}, acked: map[int]map[pktKey]int{}, cleaned: map[int]map[[2]string]uint64{}, nextSeq: map[[2]string]uint64{}, rules: map[int][]string{}}
}

func (o *netOracle) fail(sig, what string, d StepDesc, idx int) {
	d.Dump = nil
	o.fails = append(o.fails, OracleFailure{sig, what, map[string]any{"step_index": idx, "step": d}})
}

func inc(m map[int]map[pktKey]int, c int, k pktKey) int {
	if m[c] == nil {
		m[c] = map[pktKey]int{}
	}
	m[c][k]++
	return m[c][k]
}

func (o *netOracle) chainIdx(name string) int {
	for i, n := range o.h.names {
		if n == name {
			return i
		}
	}
	return -1
}

// run replays the recorded steps and evaluates the properties as predicates
func (o *netOracle) run() []OracleFailure {
	h := o.h
	for idx, d := range h.Descs {
		c := d.Chain
		self := h.names[c]
		if !d.OK {
			// C11: a relay chain that cannot forward must answer with an error
			// acknowledgement; the code fails the message when the destination is unknown
			if d.Op == "recv" && d.Pkt != nil && d.Pkt.Relay == self && o.chainIdx(d.Pkt.Dst) < 0 &&
				strings.Contains(d.Err, "light client not found") {
				si := o.chainIdx(d.Pkt.Src)
				committed := false
				if si >= 0 {
					for _, q := range o.sent[si] {
						if q == *d.Pkt {
							committed = true
						}
					}
				}
				if committed && o.recvd[c][pktKey{d.Pkt.Src, d.Pkt.Dst, d.Pkt.Seq}] == 0 {
					o.fail("C11:relay-unknown-destination-no-error-ack",
						"relay chain does not know the destination: the message fails instead of recording an error acknowledgement, so the source can never refund", d, idx)
				}
			}
			continue
		}
		switch d.Op {
		case "setrules":
			o.rules[c] = append([]string{}, d.Rules...)
		case "send":
			p := *d.Pkt
			// C09: consecutive sequences per (src,dst)
			k := [2]string{p.Src, p.Dst}
			want := o.nextSeq[k] + 1
			if p.Seq != want {
				o.fail("C09:sequence-gap", fmt.Sprintf("send on (%s,%s) got sequence %d, expected %d", p.Src, p.Dst, p.Seq, want), d, idx)
			}
			o.nextSeq[k] = p.Seq
			if len(d.Events) != 1 || !strings.HasPrefix(d.Events[0], "send_packet") {
				o.fail("C09:send-event", "successful send did not announce exactly one send_packet event", d, idx)
			}
			o.sent[c] = append(o.sent[c], p)
		case "recv":
			p := *d.Pkt
			k := pktKey{p.Src, p.Dst, p.Seq}
			// C01: the proving chain committed this packet
			from := p.Src
			if p.Dst == self && p.Relay != "" {
				from = p.Relay
			}
			fi := o.chainIdx(from)
			match, matchLoose := false, false
			if fi >= 0 {
				for _, q := range o.sent[fi] {
					if q.Src == p.Src && q.Dst == p.Dst && q.Seq == p.Seq && q.Data == p.Data {
						matchLoose = true
						if q.Port == p.Port && q.Relay == p.Relay {
							match = true
						}
					}
				}
			}
			if p.Src != self && p.Dst != self && p.Relay != self {
				o.fail("C13:uninvolved-chain-accepted", "receive accepted on a chain that is neither source, destination nor relay chain of the presented packet (relay field removed on the relay hop?)", d, idx)
			}
			if p.Relay == self && (p.Dst == self || p.Src == self) {
				// the relay field names an end point of the packet: no committed packet looks like that
				// (a chain has no light client of itself), so this is an edited relay field that made
				// the executing chain pick another proving chain than the one the field names
				o.fail("C13:relay-field-names-an-end-point", "receive accepted for a packet whose relay chain field names the executing end point itself", d, idx)
			}
			if !matchLoose {
				o.fail("C01:unauthentic-recv", "receive accepted although the proving chain never committed a packet with this source, destination, sequence and data", d, idx)
			} else if !match {
				o.fail("C13:port-or-relay-edited", "receive accepted for a committed packet whose port and/or relay chain field was altered", d, idx)
			}
			// C10: nothing at or below the clean point is accepted
			if n, ok := o.cleaned[c][[2]string{p.Src, p.Dst}]; ok && p.Seq <= n {
				o.fail("C10:recv-after-clean", fmt.Sprintf("receive of sequence %d accepted after clean point %d", p.Seq, n), d, idx)
			}
			if inc(o.recvd, c, k) > 1 {
				o.fail("C02:double-receive", "the same (source,destination,sequence) was accepted twice on one chain", d, idx)
			}
			if p.Dst == self {
				if inc(o.delivered, c, k) > 1 {
					o.fail("C02:double-delivery", "the destination application processed the same (source,destination,sequence) twice", d, idx)
				}
			}
			// C11: on the relay chain the decision follows the whitelist in force, i.e. the last rule
			// set that was actually committed on this chain
			if p.Relay == self {
				forwarded := false
				for _, e := range d.Events {
					if strings.HasPrefix(e, "send_packet") {
						forwarded = true
					}
				}
				allowed := c12SpecAuth(o.rules[c], p.Src, p.Dst, p.Port)
				if forwarded && !allowed {
					o.fail("C11:forwarded-against-whitelist", "relay chain forwarded a packet that no rule of its committed whitelist matches", d, idx)
				}
				if !forwarded && allowed {
					o.fail("C11:refused-although-whitelisted", "relay chain answered a packet that its committed whitelist allows with an error acknowledgement", d, idx)
				}
			}
			for _, e := range d.Events {
				if strings.HasPrefix(e, "write_acknowledgement") {
					if o.ackWrit[c] == nil {
						o.ackWrit[c] = map[pktKey]string{}
					}
					if _, dup := o.ackWrit[c][k]; dup {
						o.fail("C03:ack-overwritten", "an acknowledgement was written twice for one packet", d, idx)
					}
					a := "mock acknowledgement"
					if p.Relay == self {
						a = "error:unauthorized"
					}
					o.ackWrit[c][k] = a
				}
				if strings.HasPrefix(e, "send_packet") {
					if a, refused := o.ackWrit[c][k]; refused && a == "error:unauthorized" {
						o.fail("C11:forward-after-refusal", "relay chain forwarded a packet it had already answered with an error acknowledgement: the destination sees a packet whose refusal travelled back to the source", d, idx)
					}
					o.sent[c] = append(o.sent[c], p)
					if p.Relay != self {
						o.fail("C11:forward-off-relay", "a chain that is not the packet's relay chain re-committed it", d, idx)
					}
				}
			}
		case "ack":
			p := *d.Pkt
			k := pktKey{p.Src, p.Dst, p.Seq}
			// C03: we hold the commitment of exactly that packet ...
			held := false
			for _, q := range o.sent[c] {
				if q.Src == p.Src && q.Dst == p.Dst && q.Seq == p.Seq && q.Data == p.Data {
					held = true
				}
			}
			if p.Src != self && p.Dst != self && p.Relay != self {
				o.fail("C13:uninvolved-chain-accepted", "acknowledgement accepted on a chain that is neither source, destination nor relay chain of the presented packet", d, idx)
			}
			heldExact := false
			for _, q := range o.sent[c] {
				if q == p {
					heldExact = true
				}
			}
			if held && !heldExact {
				o.fail("C13:port-or-relay-edited", "acknowledgement accepted for a committed packet whose port and/or relay chain field was altered", d, idx)
			}
			if !held {
				o.fail("C03:ack-without-commitment", "acknowledgement accepted for a packet this chain never committed", d, idx)
			}
			// ... and the proving chain recorded exactly that acknowledgement
			from := p.Dst
			if p.Src == self && p.Relay != "" {
				from = p.Relay
			}
			fi := o.chainIdx(from)
			if fi < 0 || o.ackWrit[fi][k] != d.Ack {
				o.fail("C03:unauthentic-ack", "acknowledgement accepted although the proving chain did not record exactly that acknowledgement", d, idx)
			}
			if inc(o.acked, c, k) > 1 {
				o.fail("C03:double-ack", "a packet was acknowledged twice on one chain", d, idx)
			}
			if n, ok := o.cleaned[c][[2]string{p.Src, p.Dst}]; ok && p.Seq <= n {
				o.fail("C10:ack-after-clean", fmt.Sprintf("acknowledgement of sequence %d accepted after clean point %d", p.Seq, n), d, idx)
			}
			for _, e := range d.Events {
				if strings.HasPrefix(e, "write_acknowledgement") {
					if o.ackWrit[c] == nil {
						o.ackWrit[c] = map[pktKey]string{}
					}
					if _, dup := o.ackWrit[c][k]; dup {
						o.fail("C03:ack-overwritten", "pass-through acknowledgement overwrote an existing one", d, idx)
					}
					o.ackWrit[c][k] = d.Ack
				}
			}
		case "clean", "recvclean":
			cp := *d.CPkt
			src := cp.Src
			if d.Op == "clean" {
				src = self
			}
			k := [2]string{src, cp.Dst}
			if o.cleaned[c] == nil {
				o.cleaned[c] = map[[2]string]uint64{}
			}
			if prev, ok := o.cleaned[c][k]; ok && cp.Seq <= prev {
				o.fail("C10:clean-point-not-increasing", fmt.Sprintf("clean to %d accepted at clean point %d", cp.Seq, prev), d, idx)
			}
			if d.Op == "clean" {
				// every packet up to N sent on this pair has been acknowledged here
				for _, q := range o.sent[c] {
					if q.Src == src && q.Dst == cp.Dst && q.Seq <= cp.Seq && o.acked[c][pktKey{q.Src, q.Dst, q.Seq}] == 0 {
						o.fail("C10:clean-discards-live", fmt.Sprintf("clean to %d accepted while sequence %d is unacknowledged", cp.Seq, q.Seq), d, idx)
					}
				}
			}
			o.cleaned[c][k] = cp.Seq
		}
	}
	return o.fails
}

// ---- random histories ----------------------------------------------------------------

type genCfg struct {
	Focus   bool // all sends on one route, so that sequences reach two digits
	Chains  int
	Ops     int
	Perturb int // percent of relayed messages that are altered
	Clean   bool
	Rules   bool
}

type genPkt struct {
	P      Pkt
	Stage  int  // next step of the life cycle
	Unauth bool // refused by the relay chain's whitelist
	Heights map[int]uint64 // proof height each completed step used
}

func randomHistory(h *NetH, r *rand.Rand, cfg genCfg) {
	n := len(h.chains)
	var pkts []*genPkt
	ports := []string{"tibcmock", "tibcmock", "tibcmock", "NFT", "nope"}
	fs, fd, frel := 0, 1, -1
	if cfg.Focus && n > 2 && r.Intn(2) == 0 {
		frel = 2
	}
	route := func() (int, int, int) { // src, dst, relay(-1)
		if cfg.Focus {
			return fs, fd, frel
		}
		s := r.Intn(n)
		d := (s + 1 + r.Intn(n-1)) % n
		rel := -1
		if n > 2 && r.Intn(2) == 0 {
			for k := 0; k < n; k++ {
				if k != s && k != d {
					rel = k
				}
			}
		}
		return s, d, rel
	}
	nextSeq := func(s, d int) uint64 {
		c := h.chains[s]
		return c.App.TIBCKeeper.PacketKeeper.GetNextSequenceSend(c.GetContext(), h.names[s], h.names[d])
	}
	perturbPkt := func(p Pkt) Pkt {
		switch r.Intn(8) {
		case 0:
			p.Data += "x"
		case 1:
			p.Seq++
		case 2:
			p.Src, p.Dst = p.Dst, p.Src
		case 3:
			p.Port = pick(r, ports)
		case 4:
			if p.Relay == "" {
				p.Relay = h.names[r.Intn(n)]
			} else {
				p.Relay = ""
			}
		case 5:
			p.Relay = h.names[r.Intn(n)]
		case 6:
			p.Dst = h.names[r.Intn(n)]
		default:
			if len(p.Data) > 1 {
				p.Data = p.Data[:len(p.Data)-1]
			}
		}
		return p
	}
	heightFor := func(i, j int) uint64 {
		ks := h.known[[2]int{i, j}]
		if len(ks) == 0 {
			return uint64(1 + r.Intn(5))
		}
		switch r.Intn(10) {
		case 0:
			return ks[r.Intn(len(ks))] // possibly stale
		case 1:
			return ks[len(ks)-1] + 1 // unknown height
		default:
			return ks[len(ks)-1]
		}
	}
	for step := 0; step < cfg.Ops; step++ {
		x := r.Intn(100)
		if cfg.Focus && len(pkts) < 12 && x >= 30 && x < 60 {
			x = 0 // build up a deep channel first
		}
		switch {
		case x < 22: // send
			s, d, rel := route()
			p := Pkt{nextSeq(s, d), h.names[s], h.names[d], "", pick(r, ports), fmt.Sprintf("~d%d-%d", step, r.Intn(1000))}
			if rel >= 0 {
				p.Relay = h.names[rel]
			}
			mal := 14
			if cfg.Focus {
				mal = 40
			}
			switch r.Intn(mal) {
			case 0:
				p.Seq += uint64(1 + r.Intn(2))
			case 1:
				p.Data = ""
			case 2:
				p.Dst = "unknownchain9"
			case 3:
				p.Relay = "unknownrelay"
			case 4:
				p.Src = h.names[d]
			case 5:
				p.Seq = 0
			}
			if h.Send(s, p) {
				pkts = append(pkts, &genPkt{P: p, Heights: map[int]uint64{}})
			}
		case x < 30: // client update
			i := r.Intn(n)
			j := (i + 1 + r.Intn(n-1)) % n
			h.UpdateClient(i, j)
		case x < 85 && len(pkts) > 0: // advance (or replay / alter) one packet's life cycle
			g := pkts[r.Intn(len(pkts))]
			p := g.P
			s, d, rel := h.idx(p.Src), h.idx(p.Dst), h.idx(p.Relay)
			// life cycle as (kind, at, from) steps
			type lc struct {
				recv     bool
				at, from int
			}
			var steps []lc
			if rel >= 0 {
				steps = []lc{{true, rel, s}, {true, d, rel}, {false, rel, d}, {false, s, rel}}
				if g.Unauth {
					steps = []lc{{true, rel, s}, {false, s, rel}}
				}
			} else {
				steps = []lc{{true, d, s}, {false, s, d}}
			}
			k := g.Stage
			if k >= len(steps) || r.Intn(100) < 15 {
				k = r.Intn(len(steps)) // replay an earlier (or premature) step
			}
			st := steps[k]
			if st.at < 0 || st.from < 0 {
				continue
			}
			if r.Intn(12) == 0 {
				st.at = r.Intn(n)
			}
			if r.Intn(5) != 0 {
				h.UpdateClient(st.at, st.from)
			}
			altered := r.Intn(100) < cfg.Perturb
			q := p
			if st.recv {
				ps := ProofSpec{st.from, commitKey(p)}
				if altered {
					switch r.Intn(6) {
					case 0, 1, 2:
						q = perturbPkt(p)
						if r.Intn(2) == 0 {
							ps.Key = commitKey(q)
						}
					case 3:
						ps.Key = ackKey(p)
					case 4:
						ps.Chain = -1
					default:
						ps.Chain = r.Intn(n)
					}
				}
				ht := heightFor(st.at, st.from)
				if old, done := g.Heights[k]; done && r.Intn(3) != 0 {
					ht = old // replay with the proof that was valid the first time
				}
				if h.Recv(st.at, q, ps, ht) && !altered && k == g.Stage {
					g.Heights[k] = ht
					g.Stage++
					last := h.Descs[len(h.Descs)-1]
					if st.at == rel && len(last.Events) == 2 && strings.HasPrefix(last.Events[1], "write_ack") {
						g.Unauth = true
						g.Stage = 1
					}
				}
			} else {
				ack := "mock acknowledgement"
				if g.Unauth {
					ack = "error:unauthorized"
				}
				ps := ProofSpec{st.from, ackKey(p)}
				if altered {
					switch r.Intn(5) {
					case 0, 1:
						q = perturbPkt(p)
					case 2:
						ack = pick(r, []string{"mock acknowledgement", "error:unauthorized", "forged", ""})
					case 3:
						ps.Key = commitKey(p)
					default:
						ps.Chain = -1
					}
				}
				ht := heightFor(st.at, st.from)
				if old, done := g.Heights[k]; done && r.Intn(3) != 0 {
					ht = old
				}
				if h.Ack(st.at, q, ack, ps, ht) && !altered && k == g.Stage {
					g.Heights[k] = ht
					g.Stage++
				}
			}
		case x < 92 && cfg.Clean && len(pkts) > 0: // clean on source / recv-clean elsewhere
			g := pkts[r.Intn(len(pkts))]
			p := g.P
			s, d, rel := h.idx(p.Src), h.idx(p.Dst), h.idx(p.Relay)
			if s < 0 || d < 0 {
				continue
			}
			seq := uint64(r.Intn(int(nextSeq(s, d)) + 1))
			if r.Intn(2) == 0 {
				h.Clean(s, CPkt{seq, pick(r, []string{"", p.Src}), p.Dst, p.Relay})
			} else {
				cs := h.chains[s]
				cur := cs.App.TIBCKeeper.PacketKeeper.GetCleanPacketCommitment(cs.GetContext(), p.Src, p.Dst)
				if len(cur) == 8 && r.Intn(4) != 0 {
					seq = uint64(cur[7]) | uint64(cur[6])<<8
				}
				at, from := d, s
				if rel >= 0 && r.Intn(2) == 0 {
					at = rel
				} else if rel >= 0 {
					from = rel
				}
				if r.Intn(3) != 0 {
					h.UpdateClient(at, from)
				}
				ps := ProofSpec{from, cleanKey(p.Src, p.Dst)}
				if r.Intn(100) < cfg.Perturb {
					ps.Key = commitKey(p)
				}
				h.RecvClean(at, CPkt{seq, p.Src, p.Dst, p.Relay}, ps, heightFor(at, from))
			}
		case x < 97 && cfg.Rules:
			i := r.Intn(n)
			var rules []string
			for k := r.Intn(3); k > 0; k-- {
				f := func(opts ...string) string { return pick(r, append(opts, "*")) }
				rules = append(rules, f(h.names...)+","+f(h.names...)+","+f("tibcmock", "NFT"))
			}
			if r.Intn(10) == 0 {
				rules = append(rules, "bad rule")
			}
			if r.Intn(3) == 0 { // the change happens in a branch of the state that is thrown away
				h.SetRulesDiscarded(i, rules)
			} else {
				h.SetRules(i, rules)
			}
		default:
			h.Tick(time.Duration(1+r.Intn(600)) * time.Second)
		}
	}
}

func (h *NetH) idx(name string) int {
	for i, n := range h.names {
		if n == name {
			return i
		}
	}
	return -1
}

// ---- shared driver for the packet-layer property checks ----------------------------------

type netFamily struct {
	Name string
	Run  func(h *NetH)
}

// application-level families run in addition to the packet-layer ones by a net property's check
// (token sends for C09, ...): the cases then are Harness/Mixed.v cases
var netPropAppFams = map[string]func() []appFamily{}

func runNetProperty(t *testing.T, prop string, sigPrefixes []string, fams []netFamily, nRandom int, cfg genCfg, rule string) {
	out := envOut(t)
	rep := newReport(prop)
	rep.Rule = rule
	cs := &CaseSet{Prop: prop, Imports: "Harness.Net Packet.Types Packet.Keeper Net.Net", Mismatch: "net_mismatches", Shard: 12}
	wrapNet := func(s string) string { return s }
	appFams := netPropAppFams[prop]
	if appFams != nil {
		cs.Imports = "Harness.Mixed Packet.Types Packet.Keeper Net.Net Apps.Nft Apps.Mt Apps.App"
		cs.Mismatch = "mixed_mismatches"
		cs.Shard = 6
		wrapNet = func(s string) string { return "MNet (" + s + ")" }
	}
	finish := func(name string, h *NetH) {
		cs.Add(wrapNet(h.CaseTerm()), map[string]any{"family": name, "steps": h.Descs})
		acc, rej := 0, 0
		for _, d := range h.Descs {
			rep.Evaluations++
			rep.Count("op:" + d.Op)
			if d.OK {
				rep.Count("accepted:" + d.Op)
				acc++
			} else {
				rep.Count("rejected:" + d.Op)
				rej++
			}
		}
		if acc > 0 && rej > 0 {
			rep.Nontrivial(h.CaseTerm())
		}
		for _, f := range newNetOracle(h).run() {
			for _, pre := range sigPrefixes {
				if strings.HasPrefix(f.Signature, pre) {
					rep.Fail(f.Signature, f.What, map[string]any{"family": name, "failure": f.Input, "steps": briefSteps(h.Descs)})
				}
			}
		}
		if len(rep.Samples) < 2 {
			rep.Sample(2, map[string]any{"family": name, "steps": briefSteps(h.Descs)})
		}
	}
	fams = append(fams, famMalformed())
	for _, f := range fams {
		h := newNetH(t, 3)
		mesh(h)
		f.Run(h)
		finish(f.Name, h)
		rep.Count("family:" + f.Name)
	}
	for k := 0; k < nRandom; k++ {
		r := newRand(int64(k)*7919 + int64(len(prop)))
		h := newNetH(t, cfg.Chains)
		mesh(h)
		c2 := cfg
		if k%2 == 1 {
			c2.Focus = true
			c2.Ops = cfg.Ops + 30
			if c2.Rules {
				h.SetRules(2, []string{"*,*,*"})
				c2.Rules = false
			}
		}
		randomHistory(h, r, c2)
		finish(fmt.Sprintf("random-%d", k), h)
	}
	if appFams != nil {
		for _, f := range appFams() {
			h := newAppH(t, 3)
			mesh(h.NetH)
			o := newTokOracle(h)
			f.Run(h, o)
			cs.Add("MApp ("+h.CaseTerm()+")", map[string]any{"family": "app:" + f.Name, "steps": briefAppSteps(h.Descs)})
			acc, rej := 0, 0
			for _, d := range h.Descs {
				rep.Evaluations++
				rep.Count("op:" + d.Op)
				if d.OK {
					acc++
					rep.Count("accepted:" + d.Op)
				} else {
					rej++
					rep.Count("rejected:" + d.Op)
				}
			}
			if acc > 0 && rej > 0 {
				rep.Nontrivial(fmt.Sprint(briefAppSteps(h.Descs)))
			}
			all := append(append([]OracleFailure{}, o.fails...), h.Fails...)
			all = append(all, newNetOracle(h.NetH).run()...)
			for _, fl := range all {
				for _, pre := range sigPrefixes {
					if strings.HasPrefix(fl.Signature, pre) {
						rep.Fail(fl.Signature, fl.What, map[string]any{"family": "app:" + f.Name, "failure": fl.Input, "steps": briefAppSteps(h.Descs)})
					}
				}
			}
			rep.Count("family:app:" + f.Name)
		}
	}
	cs.Write(t, out)
	rep.Write(t, out)
}

func briefSteps(ds []StepDesc) []string {
	var out []string
	for _, d := range ds {
		s := fmt.Sprintf("%s@%d ok=%v", d.Op, d.Chain, d.OK)
		if d.Pkt != nil {
			s += fmt.Sprintf(" pkt=%s->%s#%d relay=%q port=%s data=%q", d.Pkt.Src, d.Pkt.Dst, d.Pkt.Seq, d.Pkt.Relay, d.Pkt.Port, d.Pkt.Data)
		}
		if d.CPkt != nil {
			s += fmt.Sprintf(" clean=%s->%s#%d relay=%q", d.CPkt.Src, d.CPkt.Dst, d.CPkt.Seq, d.CPkt.Relay)
		}
		if d.Proof != nil {
			s += fmt.Sprintf(" proof=(%d,%s)@%d", d.Proof.Chain, d.Proof.Key, d.Height)
		}
		if d.Ack != "" {
			s += " ack=" + d.Ack
		}
		out = append(out, s)
	}
	return out
}
