package harness

// C16 — genesis export and re-import preserve all protocol state.
//
// Real code exercised: tibc.ExportGenesis -> app codec JSON -> tibc.InitGenesis (module-level
// round trip, with the JSON marshal/unmarshal the chain restart goes through), on
//   (a) a FRESH SimApp (another application instance, its tibc store emptied first): the complete
//       "tibc" and transfer-application stores of the original and of the fresh chain are dumped and
//       diffed key by key (implementation-side oracle) and handed to the Coq model (Genesis/Export.v),
//       which must predict the imported store byte for byte (C16Store / C16Apps cases);
//   (b) in place on a live chain of a twin network (stores "tibc", "NFT", "MT" emptied, then
//       InitGenesis, then commit): the same history runs on two networks, one of them re-imports one
//       chain, and the same follow-up messages are delivered to both; results must be equal
//       (implementation-side oracle) and the re-imported chain must behave as the packet / application
//       model continuing from the model's re-import (C16Net / C16App cases).
// A whole-application export (ExportAppStateAndValidators) is checked for containing the same tibc
// section and no section for the transfer applications; a whole-application import is not done.

import (
	"bytes"
	"encoding/binary"
	"encoding/hex"
	"encoding/json"
	"fmt"
	"sort"
	"strings"
	"testing"

	sdk "github.com/cosmos/cosmos-sdk/types"

	clienttypes "github.com/bianjieai/tibc-go/modules/tibc/core/02-client/types"
	packettypes "github.com/bianjieai/tibc-go/modules/tibc/core/04-packet/types"
	routingtypes "github.com/bianjieai/tibc-go/modules/tibc/core/26-routing/types"
	tibc "github.com/bianjieai/tibc-go/modules/tibc/core"
	host "github.com/bianjieai/tibc-go/modules/tibc/core/24-host"
	coretypes "github.com/bianjieai/tibc-go/modules/tibc/core/types"
	ibctmtypes "github.com/bianjieai/tibc-go/modules/tibc/light-clients/07-tendermint/types"
	bsctypes "github.com/bianjieai/tibc-go/modules/tibc/light-clients/08-bsc/types"
	ethtypes "github.com/bianjieai/tibc-go/modules/tibc/light-clients/09-eth/types"
	tibctesting "github.com/bianjieai/tibc-go/modules/tibc/testing"
	"github.com/bianjieai/tibc-go/simapp"
)

const (
	c16SigClean  = "C16:clean-point-not-exported"
	c16SigMaxAck = "C16:max-ack-seq-not-exported"
	c16SigTraces = "C16:class-traces-not-exported"
	c16SigSlash  = "C16:height-with-slash-dropped"
	c16SigSuffix = "C16:height-ending-in-clientState-export-panics"
)

var c16AppStores = []string{"NFT", "MT"}

type c16Env struct {
	t     *testing.T
	rep   *Report
	cs    *CaseSet
	fresh *tibctesting.TestChain // the application instance every store-level import goes into
	seen  map[string]bool
	// model cases: the (expensive) network cases are spread over the shards, one per shard
	storeTerms, netTerms []string
	storeDescs, netDescs []any
}

func (e *c16Env) addStore(term string, desc any) {
	e.storeTerms = append(e.storeTerms, term)
	e.storeDescs = append(e.storeDescs, desc)
}
func (e *c16Env) addNet(term string, desc any) {
	e.netTerms = append(e.netTerms, term)
	e.netDescs = append(e.netDescs, desc)
}

func (e *c16Env) flushCases() {
	total := len(e.storeTerms) + len(e.netTerms)
	shard := 24
	if n := len(e.netTerms); n > 0 {
		shard = (total + n - 1) / n
		if shard < 8 {
			shard = 8
		}
		if shard > 40 {
			shard = 40
		}
	}
	e.cs.Shard = shard
	si, ni := 0, 0
	for si < len(e.storeTerms) || ni < len(e.netTerms) {
		k := 0
		if ni < len(e.netTerms) {
			e.cs.Add(e.netTerms[ni], e.netDescs[ni])
			ni++
			k++
		}
		for ; k < shard && si < len(e.storeTerms); k++ {
			e.cs.Add(e.storeTerms[si], e.storeDescs[si])
			si++
		}
		if si >= len(e.storeTerms) && ni < len(e.netTerms) && k < shard {
			// only network cases are left: they fill the last shards
			for ; k < shard && ni < len(e.netTerms); k++ {
				e.cs.Add(e.netTerms[ni], e.netDescs[ni])
				ni++
			}
		}
	}
}

// ---- raw store access -------------------------------------------------------------------------

func c16Dump(ctx sdk.Context, app *simapp.SimApp, name string) [][2]string {
	key := app.GetKey(name)
	if key == nil {
		return nil
	}
	var out [][2]string
	it := ctx.KVStore(key).Iterator(nil, nil)
	defer it.Close()
	for ; it.Valid(); it.Next() {
		out = append(out, [2]string{string(it.Key()), string(it.Value())})
	}
	return out
}

func c16DumpApps(ctx sdk.Context, app *simapp.SimApp) [][2]string {
	var out [][2]string
	for _, n := range c16AppStores {
		for _, kv := range c16Dump(ctx, app, n) {
			out = append(out, [2]string{n + ":" + kv[0], kv[1]})
		}
	}
	return out
}

func c16Wipe(ctx sdk.Context, app *simapp.SimApp, names ...string) {
	for _, n := range names {
		key := app.GetKey(n)
		if key == nil {
			continue
		}
		st := ctx.KVStore(key)
		var ks [][]byte
		it := st.Iterator(nil, nil)
		for ; it.Valid(); it.Next() {
			ks = append(ks, append([]byte(nil), it.Key()...))
		}
		it.Close()
		for _, k := range ks {
			st.Delete(k)
		}
	}
}

func c16CoqStore(d [][2]string) string {
	items := make([]string, len(d))
	for i, kv := range d {
		items[i] = "(" + hxS(kv[0]) + ", " + hxS(kv[1]) + ")"
	}
	return coqList(items)
}

// ---- key families (implementation side; the prefixes are the exported constants of the code) ------

func c16Family(k string) string {
	cp := string(host.KeyClientStorePrefix) + "/"
	switch {
	case k == clienttypes.KeyClientName:
		return "chainName"
	case k == string(host.RoutingRulesKey()):
		return "rules"
	case strings.HasPrefix(k, clienttypes.KeyRelayers):
		return "relayers"
	case strings.HasPrefix(k, host.KeyPacketAckPrefix+"/"):
		return "acks"
	case strings.HasPrefix(k, host.KeyPacketCommitmentPrefix+"/"):
		return "commitments"
	case strings.HasPrefix(k, host.KeyPacketReceiptPrefix+"/"):
		return "receipts"
	case strings.HasPrefix(k, host.KeyNextSeqSendPrefix+"/"):
		return "nextSequenceSend"
	case strings.HasPrefix(k, host.KeyCleanPacketCommitmentPrefix+"/"):
		return "clean"
	case strings.HasPrefix(k, "maxAckSeq/"):
		return "maxAckSeq"
	case strings.HasPrefix(k, cp):
		rest := k[len(cp):]
		i := strings.IndexByte(rest, '/')
		if i < 0 {
			return "clients-other"
		}
		rk := rest[i+1:]
		cons := host.KeyConsensusStatePrefix + "/"
		switch {
		case rk == host.KeyClientState:
			return "clientState"
		case strings.HasPrefix(rk, cons) && len(rk) == len(cons)+16:
			return "consensusStates"
		case strings.HasPrefix(rk, cons) && len(rk) == len(cons)+16+len(ibctmtypes.KeyProcessedTime) && strings.HasSuffix(rk, string(ibctmtypes.KeyProcessedTime)):
			return "tm-processedTime"
		case strings.HasPrefix(rk, ibctmtypes.KeyIterateConsensusStatePrefix):
			return "tm-iterationKey"
		case strings.HasPrefix(rk, bsctypes.PrefixKeyRecentSingers):
			return "bsc-recentSigners"
		case strings.HasPrefix(rk, bsctypes.PrefixPendingValidators):
			return "bsc-pendingValidators"
		case strings.HasPrefix(rk, ethtypes.KeyIndexEthHeaderPrefix):
			return "eth-headerIndex"
		case strings.HasPrefix(rk, ethtypes.KeyMainRootPrefix):
			return "eth-rootMain"
		}
		return "clients-other"
	}
	return "other"
}

// ---- export / import on the real code -----------------------------------------------------------

// returns the JSON of the exported genesis ("" and the panic text when ExportGenesis panics)
func c16Export(app *simapp.SimApp, ctx sdk.Context) (bz []byte, gs *coretypes.GenesisState, panicked string) {
	defer func() {
		if r := recover(); r != nil {
			bz, gs, panicked = nil, nil, fmt.Sprint(r)
			if panicked == "" {
				panicked = "panic"
			}
		}
	}()
	gs = tibc.ExportGenesis(ctx, *app.TIBCKeeper)
	bz = app.AppCodec().MustMarshalJSON(gs)
	return bz, gs, ""
}

// InitGenesis of the JSON on ctx after emptying the tibc and application stores (what a
// fresh chain has there before InitGenesis runs)
func c16Import(app *simapp.SimApp, ctx sdk.Context, bz []byte) (panicked string) {
	defer func() {
		if r := recover(); r != nil {
			panicked = fmt.Sprint(r)
			if panicked == "" {
				panicked = "panic"
			}
		}
	}()
	c16Wipe(ctx, app, append([]string{host.StoreKey}, c16AppStores...)...)
	var gs coretypes.GenesisState
	app.AppCodec().MustUnmarshalJSON(bz, &gs)
	tibc.InitGenesis(ctx, *app.TIBCKeeper, false, &gs)
	return ""
}

// ---- store-level round trip: diff (oracle) + model case -------------------------------------------

type c16Diff struct {
	Lost     map[string][]string `json:"lost,omitempty"`     // family -> keys (hex)
	Changed  map[string][]string `json:"changed,omitempty"`  // family -> keys (hex)
	Appeared map[string][]string `json:"appeared,omitempty"` // family -> keys (hex)
	Panic    string              `json:"export_panic,omitempty"`
	ImpPanic string              `json:"import_panic,omitempty"`
	Invalid  string              `json:"validate,omitempty"`
	NOrig    int                 `json:"n_orig"`
	NImp     int                 `json:"n_imported"`
}

func c16DiffDumps(orig, imp [][2]string, fam func(string) string) c16Diff {
	d := c16Diff{Lost: map[string][]string{}, Changed: map[string][]string{}, Appeared: map[string][]string{}, NOrig: len(orig), NImp: len(imp)}
	mi := map[string]string{}
	for _, kv := range imp {
		mi[kv[0]] = kv[1]
	}
	mo := map[string]bool{}
	for _, kv := range orig {
		mo[kv[0]] = true
		v, ok := mi[kv[0]]
		f := fam(kv[0])
		if !ok {
			d.Lost[f] = append(d.Lost[f], hex.EncodeToString([]byte(kv[0])))
		} else if v != kv[1] {
			d.Changed[f] = append(d.Changed[f], hex.EncodeToString([]byte(kv[0])))
		}
	}
	for _, kv := range imp {
		if !mo[kv[0]] {
			f := fam(kv[0])
			d.Appeared[f] = append(d.Appeared[f], hex.EncodeToString([]byte(kv[0])))
		}
	}
	return d
}

type c16RT struct {
	Label    string     `json:"label"`
	Diff     c16Diff    `json:"diff"`
	AppDiff  c16Diff    `json:"app_diff"`
	Orig     [][2]string `json:"-"`
	Imp      [][2]string `json:"-"`
	JSON     []byte     `json:"-"`
	Exported bool       `json:"exported"`
}

// how much the implementation-side oracle may assume about a state
const (
	c16Unreachable = 0 // keys / values the protocol never writes: only the model must agree with the code
	c16WellFormed  = 1 // every key built by the protocol's key builders (states written through the keepers' setters): everything must survive, queries must agree
	c16Reached     = 2 // state reached by real messages: additionally the exported genesis must pass GenesisState.Validate
)

// roundTrip exports ctx's tibc state, imports it into the fresh application and records both the
// oracle verdicts and the model cases.
func (e *c16Env) roundTrip(label string, app *simapp.SimApp, ctx sdk.Context, mode int) *c16RT {
	wellFormed := mode >= c16WellFormed
	rt := &c16RT{Label: label}
	rt.Orig = c16Dump(ctx, app, host.StoreKey)
	origApps := c16DumpApps(ctx, app)
	bz, gs, pan := c16Export(app, ctx)
	rt.Exported = pan == ""
	rt.JSON = bz
	e.rep.Evaluations++
	var impApps [][2]string
	if pan != "" {
		rt.Diff.Panic = pan
		e.rep.Count("export:panic")
		if wellFormed {
			e.rep.Fail("C16:export-panics", "tibc.ExportGenesis panicked on a well-formed state: "+pan, map[string]any{"case": label})
		}
	} else {
		e.rep.Count("export:ok")
		if err := gs.Validate(); err != nil {
			rt.Diff.Invalid = err.Error()
			e.rep.Count("export:genesis-fails-Validate")
			if mode >= c16Reached {
				e.rep.Fail("C16:exported-genesis-invalid", "the exported genesis of a well-formed state fails GenesisState.Validate: "+err.Error(), map[string]any{"case": label})
			}
		}
		fctx, _ := e.fresh.GetContext().CacheContext()
		fctx = fctx.WithBlockHeader(ctx.BlockHeader())
		if ip := c16Import(e.fresh.App, fctx, bz); ip != "" {
			rt.Diff.ImpPanic = ip
			e.rep.Count("import:panic")
			if wellFormed {
				e.rep.Fail("C16:import-panics", "tibc.InitGenesis panicked on the exported genesis: "+ip, map[string]any{"case": label})
			}
			return rt
		}
		rt.Imp = c16Dump(fctx, e.fresh.App, host.StoreKey)
		impApps = c16DumpApps(fctx, e.fresh.App)
		d := c16DiffDumps(rt.Orig, rt.Imp, c16Family)
		d.Invalid = rt.Diff.Invalid
		rt.Diff = d
		rt.AppDiff = c16DiffDumps(origApps, impApps, func(string) string { return "class-traces" })
		if wellFormed {
			e.queryOracle(label, app, ctx, fctx, rt)
		}
	}
	// model cases
	// the imported store is handed over as its difference from the original one (smaller literals)
	var lostKeys []string
	var changedOrNew [][2]string
	{
		mo := map[string]string{}
		for _, kv := range rt.Orig {
			mo[kv[0]] = kv[1]
		}
		mi := map[string]bool{}
		for _, kv := range rt.Imp {
			mi[kv[0]] = true
			if v, ok := mo[kv[0]]; !ok || v != kv[1] {
				changedOrNew = append(changedOrNew, kv)
			}
		}
		for _, kv := range rt.Orig {
			if !mi[kv[0]] {
				lostKeys = append(lostKeys, hxS(kv[0]))
			}
		}
	}
	e.addStore(fmt.Sprintf("C16StoreD %s %s %s %s", c16CoqStore(rt.Orig), coqBool(rt.Exported), coqList(lostKeys), c16CoqStore(changedOrNew)),
		map[string]any{"kind": "store", "case": label, "diff": rt.Diff, "orig_keys": c16KeysHex(rt.Orig)})
	if rt.Exported && (len(origApps) > 0 || len(impApps) > 0) {
		e.addStore(fmt.Sprintf("C16Apps %s %s", c16CoqStore(origApps), c16CoqStore(impApps)),
			map[string]any{"kind": "apps", "case": label, "diff": rt.AppDiff})
	}
	fams := map[string]bool{}
	for _, kv := range rt.Orig {
		f := c16Family(kv[0])
		if !fams[f] {
			e.rep.Count("store-has:" + f)
			fams[f] = true
		}
	}
	if len(fams) >= 6 {
		e.rep.Nontrivial(label)
	}
	if wellFormed {
		e.survivalOracle(label, rt)
	}
	return rt
}

// the routing rules as the code reads them (JSON list; "null" and "[]" are both the empty list)
func c16SameRules(a, b [][2]string) bool {
	get := func(d [][2]string) ([]string, bool) {
		for _, kv := range d {
			if kv[0] == string(host.RoutingRulesKey()) {
				var l []string
				if json.Unmarshal([]byte(kv[1]), &l) != nil {
					return nil, false
				}
				return l, true
			}
		}
		return nil, false
	}
	x, ok1 := get(a)
	y, ok2 := get(b)
	return ok1 && ok2 && fmt.Sprint(x) == fmt.Sprint(y)
}

func c16KeysHex(d [][2]string) []string {
	out := make([]string, len(d))
	for i, kv := range d {
		out[i] = hex.EncodeToString([]byte(kv[0]))
	}
	return out
}

// the property as a predicate on the two dumps: every key of every family survives with its value
// and nothing appears.  Losses in the families of the recorded findings are returned to the caller
// (they are reported under the known signatures only together with their behavioural consequence)
func (e *c16Env) survivalOracle(label string, rt *c16RT) {
	if !rt.Exported || rt.Diff.ImpPanic != "" {
		return
	}
	in := func(keys []string) map[string]any { return map[string]any{"case": label, "keys_hex": keys} }
	for _, f := range sortedKeys(rt.Diff.Lost) {
		e.rep.Count("lost:" + f)
		switch f {
		case "clean", "maxAckSeq": // recorded findings: reported by the scenarios that also show the consequence
		default:
			sig := "C16:" + f + "-lost"
			if f == "consensusStates" || f == "tm-processedTime" || f == "tm-iterationKey" {
				for _, k := range rt.Diff.Lost[f] {
					if strings.Contains(k, "2f") {
						sig = c16SigSlash
					}
				}
			}
			e.rep.Fail(sig, "keys of family "+f+" are missing after export and re-import", in(rt.Diff.Lost[f]))
		}
	}
	for _, f := range sortedKeys(rt.Diff.Changed) {
		if f == "rules" && c16SameRules(rt.Orig, rt.Imp) {
			e.rep.Count("rules:empty-list-reencoded")
			continue
		}
		e.rep.Count("changed:" + f)
		x := in(rt.Diff.Changed[f])
		vals := map[string][2]string{}
		for _, k := range rt.Diff.Changed[f] {
			raw, _ := hex.DecodeString(k)
			var v [2]string
			for _, kv := range rt.Orig {
				if kv[0] == string(raw) {
					v[0] = hex.EncodeToString([]byte(kv[1]))
				}
			}
			for _, kv := range rt.Imp {
				if kv[0] == string(raw) {
					v[1] = hex.EncodeToString([]byte(kv[1]))
				}
			}
			vals[k] = v
		}
		x["original_and_reimported_value_hex"] = vals
		e.rep.Fail("C16:"+f+"-changed", "values of family "+f+" differ after export and re-import", x)
	}
	for _, f := range sortedKeys(rt.Diff.Appeared) {
		e.rep.Count("appeared:" + f)
		e.rep.Fail("C16:"+f+"-appeared", "keys of family "+f+" exist only after re-import", in(rt.Diff.Appeared[f]))
	}
	for _, f := range sortedKeys(rt.AppDiff.Changed) {
		e.rep.Fail("C16:"+f+"-changed", "transfer application store values differ after re-import", in(rt.AppDiff.Changed[f]))
	}
	for _, f := range sortedKeys(rt.AppDiff.Appeared) {
		e.rep.Fail("C16:"+f+"-appeared", "transfer application store keys exist only after re-import", in(rt.AppDiff.Appeared[f]))
	}
	if n := len(rt.AppDiff.Lost["class-traces"]); n > 0 {
		e.rep.Count("lost:class-traces")
	}
}

// every gRPC query of the module answered from both states
func (e *c16Env) queryOracle(label string, app *simapp.SimApp, octx, fctx sdk.Context, rt *c16RT) {
	type ans struct{ name, a, b string }
	var diffs []ans
	ask := func(name string, f func(app *simapp.SimApp, ctx sdk.Context) (interface{ Marshal() ([]byte, error) }, error)) {
		enc := func(a *simapp.SimApp, ctx sdk.Context) string {
			r, err := f(a, ctx)
			if err != nil {
				return "error"
			}
			bz, _ := r.Marshal()
			return hex.EncodeToString(bz)
		}
		x, y := enc(app, octx), enc(e.fresh.App, fctx)
		e.rep.Count("query:" + name)
		if x != y {
			diffs = append(diffs, ans{name, x, y})
		}
	}
	names := map[string]bool{}
	pairs := map[[2]string]bool{}
	type seqk struct {
		s, d string
		n    uint64
	}
	seqs := map[seqk]bool{}
	for _, kv := range rt.Orig {
		parts := strings.Split(kv[0], "/")
		switch c16Family(kv[0]) {
		case "clientState":
			names[parts[1]] = true
		case "acks", "commitments", "receipts":
			var n uint64
			fmt.Sscanf(parts[len(parts)-1], "%d", &n)
			pairs[[2]string{parts[1], parts[2]}] = true
			seqs[seqk{parts[1], parts[2], n}] = true
		case "nextSequenceSend", "clean", "maxAckSeq":
			pairs[[2]string{parts[1], parts[2]}] = true
		}
	}
	type M = interface{ Marshal() ([]byte, error) }
	ask("ClientStates", func(a *simapp.SimApp, c sdk.Context) (M, error) {
		return a.TIBCKeeper.ClientStates(c, &clienttypes.QueryClientStatesRequest{})
	})
	ask("RoutingRules", func(a *simapp.SimApp, c sdk.Context) (M, error) {
		return a.TIBCKeeper.RoutingRules(c, &routingtypes.QueryRoutingRulesRequest{})
	})
	for _, n := range sortedKeys(names) {
		n := n
		ask("ClientState", func(a *simapp.SimApp, c sdk.Context) (M, error) {
			return a.TIBCKeeper.ClientState(c, &clienttypes.QueryClientStateRequest{ChainName: n})
		})
		ask("ConsensusStates", func(a *simapp.SimApp, c sdk.Context) (M, error) {
			return a.TIBCKeeper.ConsensusStates(c, &clienttypes.QueryConsensusStatesRequest{ChainName: n})
		})
		ask("ConsensusState-latest", func(a *simapp.SimApp, c sdk.Context) (M, error) {
			return a.TIBCKeeper.ConsensusState(c, &clienttypes.QueryConsensusStateRequest{ChainName: n, LatestHeight: true})
		})
		ask("Relayers", func(a *simapp.SimApp, c sdk.Context) (M, error) {
			return a.TIBCKeeper.Relayers(c, &clienttypes.QueryRelayersRequest{ChainName: n})
		})
	}
	cleanDiff := false
	for p := range pairs {
		p := p
		ask("PacketCommitments", func(a *simapp.SimApp, c sdk.Context) (M, error) {
			return a.TIBCKeeper.PacketCommitments(c, &packettypes.QueryPacketCommitmentsRequest{SourceChain: p[0], DestChain: p[1]})
		})
		ask("PacketAcknowledgements", func(a *simapp.SimApp, c sdk.Context) (M, error) {
			return a.TIBCKeeper.PacketAcknowledgements(c, &packettypes.QueryPacketAcknowledgementsRequest{SourceChain: p[0], DestChain: p[1]})
		})
		ask("UnreceivedPackets", func(a *simapp.SimApp, c sdk.Context) (M, error) {
			return a.TIBCKeeper.UnreceivedPackets(c, &packettypes.QueryUnreceivedPacketsRequest{SourceChain: p[0], DestChain: p[1], PacketCommitmentSequences: []uint64{1, 2, 3, 4, 5, 9, 10, 11}})
		})
		ask("UnreceivedAcks", func(a *simapp.SimApp, c sdk.Context) (M, error) {
			return a.TIBCKeeper.UnreceivedAcks(c, &packettypes.QueryUnreceivedAcksRequest{SourceChain: p[0], DestChain: p[1], PacketAckSequences: []uint64{1, 2, 3, 4, 5, 9, 10, 11}})
		})
		// the clean-point query belongs to the recorded finding
		n0 := len(diffs)
		ask("CleanPacketCommitment", func(a *simapp.SimApp, c sdk.Context) (M, error) {
			return a.TIBCKeeper.CleanPacketCommitment(c, &packettypes.QueryCleanPacketCommitmentRequest{SourceChain: p[0], DestChain: p[1]})
		})
		if len(diffs) > n0 {
			diffs = diffs[:n0]
			cleanDiff = true
		}
	}
	for s := range seqs {
		s := s
		ask("PacketCommitment", func(a *simapp.SimApp, c sdk.Context) (M, error) {
			return a.TIBCKeeper.PacketCommitment(c, &packettypes.QueryPacketCommitmentRequest{SourceChain: s.s, DestChain: s.d, Sequence: s.n})
		})
		ask("PacketReceipt", func(a *simapp.SimApp, c sdk.Context) (M, error) {
			return a.TIBCKeeper.PacketReceipt(c, &packettypes.QueryPacketReceiptRequest{SourceChain: s.s, DestChain: s.d, Sequence: s.n})
		})
		ask("PacketAcknowledgement", func(a *simapp.SimApp, c sdk.Context) (M, error) {
			return a.TIBCKeeper.PacketAcknowledgement(c, &packettypes.QueryPacketAcknowledgementRequest{SourceChain: s.s, DestChain: s.d, Sequence: s.n})
		})
	}
	if cleanDiff {
		e.rep.Count("query-differs:CleanPacketCommitment(recorded finding)")
		if len(rt.Diff.Lost["clean"]) == 0 {
			e.rep.Fail("C16:query-differs", "CleanPacketCommitment query answers differ although no clean/ key was lost", map[string]any{"case": label})
		}
	}
	for _, d := range diffs {
		e.rep.Fail("C16:query-differs", "gRPC query "+d.name+" is answered differently by the re-imported chain", map[string]any{"case": label, "query": d.name, "original": d.a, "reimported": d.b})
	}
}

// ---- twin networks ------------------------------------------------------------------------------

type c16Twin struct {
	e      *c16Env
	name   string
	a, b   *NetH // a: original, b: chains are re-imported in place
	aa, ab *AppH // application mode (nil otherwise)
	marks  map[int]string
	// what the re-imports lost: "chain:src/dst" -> value that was lost
	lostClean, lostMaxAck map[string]uint64
	lostTraces            bool
	reimported            map[int]bool
	tainted               map[string]bool // "src/dst" pairs on which a recorded finding already made the networks diverge
	desync                bool
	loose                 bool // after a recorded finding made whole transfers diverge: only verdicts are compared
	contFrom              int
	// behavioural demonstrations
	demoClean, demoMaxAck, demoTraces []any
}

func (e *c16Env) newTwin(name string, n int, app bool) *c16Twin {
	tw := &c16Twin{e: e, name: name, marks: map[int]string{}, lostClean: map[string]uint64{}, lostMaxAck: map[string]uint64{},
		reimported: map[int]bool{}, tainted: map[string]bool{}, contFrom: -1}
	if app {
		tw.aa, tw.ab = newAppH(e.t, n), newAppH(e.t, n)
		tw.a, tw.b = tw.aa.NetH, tw.ab.NetH
	} else {
		tw.a, tw.b = newNetH(e.t, n), newNetH(e.t, n)
	}
	return tw
}

// run the same operation on both networks
func (tw *c16Twin) do(f func(h *NetH)) {
	na, nb := len(tw.a.Descs), len(tw.b.Descs)
	f(tw.a)
	f(tw.b)
	tw.compare(na, nb)
}

func (tw *c16Twin) doApp(f func(h *AppH)) {
	na, nb := len(tw.a.Descs), len(tw.b.Descs)
	f(tw.aa)
	f(tw.ab)
	tw.compare(na, nb)
}

func c16PairOf(d StepDesc, names []string) string {
	if d.Pkt != nil {
		return d.Pkt.Src + "/" + d.Pkt.Dst
	}
	if d.CPkt != nil {
		src := d.CPkt.Src
		if src == "" && d.Chain < len(names) { // MsgCleanPacket: the keeper fills in its own chain name
			src = names[d.Chain]
		}
		return src + "/" + d.CPkt.Dst
	}
	return ""
}

func c16SameOp(x, y StepDesc) bool {
	if x.Op != y.Op || x.Chain != y.Chain || x.Other != y.Other || x.Height != y.Height || x.Ack != y.Ack {
		return false
	}
	if (x.Pkt == nil) != (y.Pkt == nil) || (x.CPkt == nil) != (y.CPkt == nil) {
		return false
	}
	if x.Pkt != nil && (x.Pkt.Seq != y.Pkt.Seq || x.Pkt.Src != y.Pkt.Src || x.Pkt.Dst != y.Pkt.Dst || x.Pkt.Relay != y.Pkt.Relay || x.Pkt.Port != y.Pkt.Port) {
		return false
	}
	if x.CPkt != nil && *x.CPkt != *y.CPkt {
		return false
	}
	return true
}

// compare the steps the networks recorded since indices fromA / fromB
func (tw *c16Twin) compare(fromA, fromB int) {
	if tw.desync {
		return
	}
	e := tw.e
	if la, lb := len(tw.a.Descs)-fromA, len(tw.b.Descs)-fromB; la != lb {
		// a helper (relaying whatever the last step sent) did more on one network: legitimate only
		// after a recorded finding made the networks diverge
		if len(tw.tainted) > 0 || len(tw.demoTraces) > 0 {
			e.rep.Count("continuation-differs:consequence-of-recorded-finding")
			tw.loose = true
		} else {
			tw.desync = true
			e.rep.Fail("C16:twin-nondeterministic", "the two networks executed different numbers of steps (harness defect)", map[string]any{"case": tw.name, "step": fromA})
		}
		return
	}
	for j := 0; fromA+j < len(tw.a.Descs); j++ {
		i := fromA + j
		x, y := tw.a.Descs[i], tw.b.Descs[fromB+j]
		if tw.loose {
			if x.Op != y.Op || x.Chain != y.Chain {
				tw.desync = true
				return
			}
			e.rep.Evaluations++
			e.rep.Count("continuation:" + x.Op)
			if x.OK != y.OK {
				in := map[string]any{"case": tw.name, "step": i, "op": x.Op, "chain": x.Chain, "original_ok": x.OK, "reimported_ok": y.OK, "reimported_err": c16Short(y.Err)}
				if tw.lostTraces && tw.reimported[x.Chain] && (x.Op == "nft-send" || x.Op == "mt-send") && x.OK && !y.OK {
					tw.demoTraces = append(tw.demoTraces, in)
				} else {
					e.rep.Fail("C16:continuation-differs", "the same message is "+c16Verdict(x.OK)+" by the original chain and "+c16Verdict(y.OK)+" by the re-imported chain", in)
				}
			}
			continue
		}
		if !c16SameOp(x, y) {
			tw.desync = true
			e.rep.Count("twin:desync")
			e.rep.Fail("C16:twin-nondeterministic", "the two networks were given different operations (harness defect)", map[string]any{"case": tw.name, "step": i})
			return
		}
		if len(tw.reimported) == 0 {
			if x.OK != y.OK {
				e.rep.Fail("C16:twin-nondeterministic", "the two networks answered differently before any re-import (harness defect)", map[string]any{"case": tw.name, "step": i, "op": x.Op})
				tw.desync = true
				return
			}
			continue
		}
		e.rep.Evaluations++
		e.rep.Count("continuation:" + x.Op)
		if x.OK {
			e.rep.Count("continuation-accepted:" + x.Op)
		} else {
			e.rep.Count("continuation-refused:" + x.Op)
		}
		pair := c16PairOf(x, tw.a.names)
		ck := fmt.Sprintf("%d:%s", x.Chain, pair)
		lcv, lc := tw.lostClean[ck]
		_, lm := tw.lostMaxAck[ck]
		in := map[string]any{"case": tw.name, "step": i, "op": x.Op, "chain": x.Chain, "pkt": x.Pkt, "cpkt": x.CPkt, "original_ok": x.OK, "reimported_ok": y.OK,
			"original_err": c16Short(x.Err), "reimported_err": c16Short(y.Err)}
		if x.OK != y.OK {
			e.rep.Count("continuation-differs:" + x.Op)
			switch {
			case lc && (x.Op == "recv" || x.Op == "ack") && !x.OK && y.OK && x.Pkt.Seq <= lcv:
				tw.demoClean = append(tw.demoClean, in)
				tw.tainted[pair] = true
			case lc && x.Op == "recvclean" && !x.OK && y.OK && x.CPkt.Seq <= lcv:
				tw.demoClean = append(tw.demoClean, in)
				tw.tainted[pair] = true
			case lm && (x.Op == "clean" || x.Op == "recvclean") && x.OK && !y.OK:
				tw.demoMaxAck = append(tw.demoMaxAck, in)
				tw.tainted[pair] = true
			case tw.lostTraces && tw.reimported[x.Chain] && (x.Op == "nft-send" || x.Op == "mt-send") && x.OK && !y.OK:
				tw.demoTraces = append(tw.demoTraces, in)
			case pair != "" && tw.tainted[pair]:
				e.rep.Count("continuation-differs:consequence-of-recorded-finding")
			default:
				e.rep.Fail("C16:continuation-differs", "the same message is "+c16Verdict(x.OK)+" by the original chain and "+c16Verdict(y.OK)+" by the re-imported chain", in)
			}
			continue
		}
		if x.OK && strings.Join(x.Events, "|") != strings.Join(y.Events, "|") {
			e.rep.Fail("C16:continuation-differs", "the same accepted message emits different packet events on the original and the re-imported chain", in)
		}
		// packet-store projection of the acted chain, outside the channels hit by the recorded losses
		keep := func(k string) bool {
			parts := strings.Split(k, "/")
			if len(parts) < 3 {
				return true
			}
			p := parts[1] + "/" + parts[2]
			_, c1 := tw.lostClean[fmt.Sprintf("%d:%s", x.Chain, p)]
			_, c2 := tw.lostMaxAck[fmt.Sprintf("%d:%s", x.Chain, p)]
			return !(c1 || c2 || tw.tainted[p])
		}
		var dx, dy [][2]string
		for _, kv := range x.Dump {
			if keep(kv[0]) {
				dx = append(dx, kv)
			}
		}
		for _, kv := range y.Dump {
			if keep(kv[0]) {
				dy = append(dy, kv)
			}
		}
		if fmt.Sprint(dx) != fmt.Sprint(dy) {
			e.rep.Fail("C16:continuation-differs", "packet stores of the original and the re-imported network differ after the same message", in)
		}
	}
}

func c16Verdict(ok bool) string {
	if ok {
		return "accepted"
	}
	return "refused"
}

func c16Short(s string) string {
	if len(s) > 140 {
		return s[:140]
	}
	return s
}

// reimport chain i of network b in place; network a commits a block to stay in step
func (tw *c16Twin) reimport(i int) {
	e := tw.e
	if tw.desync {
		return
	}
	// store-level round trip of the original chain on the fresh application: diff + model case
	ca := tw.a.chains[i]
	rt := e.roundTrip(tw.name+"/chain"+fmt.Sprint(i), ca.App, ca.GetContext(), c16Reached)
	tw.a.commit(i)

	cb := tw.b.chains[i]
	ctx := cb.GetContext()
	before := c16Dump(ctx, cb.App, host.StoreKey)
	bz, _, pan := c16Export(cb.App, ctx)
	if pan != "" {
		e.rep.Fail("C16:export-panics", "tibc.ExportGenesis panicked on a live chain: "+pan, map[string]any{"case": tw.name})
		tw.desync = true
		return
	}
	// whole-application export: same tibc section, no section for the transfer applications
	if exp, err := cb.App.ExportAppStateAndValidators(false, nil, nil); err == nil {
		var sections map[string]json.RawMessage
		if json.Unmarshal(exp.AppState, &sections) == nil {
			for _, n := range c16AppStores {
				if _, ok := sections[n]; ok {
					e.rep.Notes = append(e.rep.Notes, "whole-application export now has a section "+n)
				}
			}
			var x, y any
			if json.Unmarshal(sections[host.ModuleName], &x) == nil && json.Unmarshal(bz, &y) == nil {
				bx, _ := json.Marshal(x)
				by, _ := json.Marshal(y)
				if !bytes.Equal(bx, by) {
					e.rep.Fail("C16:app-export-differs", "ExportAppStateAndValidators carries a tibc section different from tibc.ExportGenesis", map[string]any{"case": tw.name})
				}
			}
			e.rep.Count("whole-app-export:checked")
		}
	}
	if ip := c16Import(cb.App, ctx, bz); ip != "" {
		e.rep.Fail("C16:import-panics", "tibc.InitGenesis panicked: "+ip, map[string]any{"case": tw.name})
		tw.desync = true
		return
	}
	after := c16Dump(ctx, cb.App, host.StoreKey)
	tw.b.commit(i)
	// the in-place import and the import into the fresh application must give the same store
	if rt.Exported && fmt.Sprint(after) != fmt.Sprint(rt.Imp) && fmt.Sprint(before) == fmt.Sprint(rt.Orig) {
		e.rep.Fail("C16:inplace-vs-fresh-differs", "InitGenesis into the emptied live store and into a fresh application give different stores", map[string]any{"case": tw.name})
	}
	d := c16DiffDumps(before, after, c16Family)
	val := func(k string) uint64 {
		for _, kv := range before {
			if hex.EncodeToString([]byte(kv[0])) == k && len(kv[1]) == 8 {
				return binary.BigEndian.Uint64([]byte(kv[1]))
			}
		}
		return 0
	}
	pairOf := func(k string) string {
		raw, _ := hex.DecodeString(k)
		parts := strings.Split(string(raw), "/")
		if len(parts) == 3 {
			return parts[1] + "/" + parts[2]
		}
		return string(raw)
	}
	for _, k := range d.Lost["clean"] {
		tw.lostClean[fmt.Sprintf("%d:%s", i, pairOf(k))] = val(k)
	}
	for _, k := range d.Lost["maxAckSeq"] {
		tw.lostMaxAck[fmt.Sprintf("%d:%s", i, pairOf(k))] = val(k)
	}
	if len(rt.AppDiff.Lost["class-traces"]) > 0 {
		tw.lostTraces = true
	}
	tw.reimported[i] = true
	if tw.contFrom < 0 {
		tw.contFrom = len(tw.b.Descs)
	}
	// model: the re-import as a step of network b
	if tw.ab != nil {
		lt, _ := tw.ab.ledgerTerm(i)
		tw.marks[len(tw.b.steps)] = fmt.Sprintf("SAReimport %d %s %s", i, coqDump(tw.b.dump(i)), lt)
	} else {
		tw.marks[len(tw.b.steps)] = fmt.Sprintf("SReimport %d %s", i, coqDump(tw.b.dump(i)))
	}
	e.rep.Count("reimport:in-place")
}

// finish: report the recorded findings that were demonstrated, emit the model case of network b
func (tw *c16Twin) finish() {
	e := tw.e
	if len(tw.lostClean) > 0 && len(tw.demoClean) > 0 {
		e.rep.Fail(c16SigClean, "clean point lost by export/re-import: a packet below it is refused by the original chain and accepted by the re-imported chain",
			map[string]any{"case": tw.name, "lost": tw.lostClean, "demonstrations": tw.demoClean})
	}
	if len(tw.lostMaxAck) > 0 {
		e.rep.Fail(c16SigMaxAck, "highest acknowledged sequence lost by export/re-import",
			map[string]any{"case": tw.name, "lost": tw.lostMaxAck, "demonstrations": tw.demoMaxAck})
	}
	if tw.lostTraces && len(tw.demoTraces) > 0 {
		e.rep.Fail(c16SigTraces, "voucher class traces lost by export/re-import: the voucher can no longer be transferred",
			map[string]any{"case": tw.name, "demonstrations": tw.demoTraces})
	}
	if len(tw.demoClean) > 0 {
		e.rep.Count("demonstrated:replay-accepted-after-reimport")
	}
	if len(tw.demoMaxAck) > 0 {
		e.rep.Count("demonstrated:clean-refused-after-reimport")
	}
	if len(tw.demoTraces) > 0 {
		e.rep.Count("demonstrated:voucher-stuck-after-reimport")
	}
	// the client sub-stores of the re-imported chains hold the same keys on both networks at the end
	if !tw.desync && !tw.loose {
		for i := range tw.reimported {
			ka, kb := c16ClientKeys(tw.a.chains[i]), c16ClientKeys(tw.b.chains[i])
			if ka != kb {
				e.rep.Fail("C16:continuation-differs", "after the same history the original and the re-imported chain hold different client-store keys (consensus states / metadata)",
					map[string]any{"case": tw.name, "chain": i, "original": ka, "reimported": kb})
			}
		}
		e.rep.Count("twin:client-store-keys-compared")
	}
	var steps []string
	first := len(tw.b.steps) // index of the first re-import: the history before it is compared by verdict only
	for k := range tw.marks {
		if k < first {
			first = k
		}
	}
	for k, s := range tw.b.steps {
		if m, ok := tw.marks[k]; ok {
			steps = append(steps, m)
		}
		light := ""
		if k < first && k < len(tw.b.Descs) {
			sep := ", mkObs "
			if tw.ab != nil {
				sep = ", mkAObs "
			}
			if i := strings.Index(s, sep); i > 0 {
				light = s[1:i] + " " + coqBool(tw.b.Descs[k].OK)
			}
		}
		switch {
		case light != "" && tw.ab != nil:
			steps = append(steps, "SAppL ("+light[:strings.LastIndex(light, " ")]+") "+coqBool(tw.b.Descs[k].OK))
		case light != "":
			steps = append(steps, "SNetL ("+light[:strings.LastIndex(light, " ")]+") "+coqBool(tw.b.Descs[k].OK))
		case tw.ab != nil:
			steps = append(steps, "SAppP "+s)
		default:
			steps = append(steps, "SNetP "+s)
		}
	}
	if m, ok := tw.marks[len(tw.b.steps)]; ok {
		steps = append(steps, m)
	}
	ns := make([]string, len(tw.b.names))
	for i, n := range tw.b.names {
		ns[i] = hxS(n)
	}
	var term string
	if tw.ab != nil {
		term = "C16App " + coqList(ns) + " " + hxS(tw.ab.nftEscrow()) + " " + hxS(tw.ab.mtEscrow()) + " [\n  " + strings.Join(steps, ";\n  ") + "]"
	} else {
		term = "C16Net " + coqList(ns) + " [\n  " + strings.Join(steps, ";\n  ") + "]"
	}
	acc, rej := 0, 0
	for k, d := range tw.b.Descs {
		if k >= tw.contFrom && tw.contFrom >= 0 {
			if d.OK {
				acc++
			} else {
				rej++
			}
		}
	}
	if acc > 0 && rej > 0 {
		e.rep.Nontrivial(tw.name)
	}
	e.addNet(term, map[string]any{"kind": "net", "case": tw.name, "reimported_chains": fmt.Sprint(tw.reimported), "steps": briefSteps(tw.b.Descs),
		"lost_clean": tw.lostClean, "lost_maxack": tw.lostMaxAck})
	if len(e.rep.Samples) < 3 {
		e.rep.Sample(3, map[string]any{"case": tw.name, "steps": briefSteps(tw.b.Descs)})
	}
}

// ---- the test ---------------------------------------------------------------------------------------

func TestC16(t *testing.T) {
	out := envOut(t)
	rep := newReport("C16")
	rep.Rule = "store level: the complete tibc / transfer-application KV stores of real chains (directed histories, BSC and ETH clients with real header updates, seeded synthetic stores over all key families with boundary heights / sequences / names, a malformed stream of keys the protocol never writes) exported with tibc.ExportGenesis, JSON round trip, InitGenesis into a fresh application, diffed key by key and predicted by the model; behaviour: twin networks, one chain re-imported in place, same follow-up messages on both; non-trivial = store with >= 6 key families, or continuation with accepted and refused messages"
	cs := &CaseSet{Prop: "C16", Imports: "Harness.C16 Genesis.Export Packet.Types Packet.Keeper Net.Net Apps.Nft Apps.Mt Apps.App Harness.AppNet", Mismatch: "c16_mismatches", Shard: 8}
	e := &c16Env{t: t, rep: rep, cs: cs, seen: map[string]bool{}}
	e.fresh = tibctesting.NewCoordinator(t, 1).GetChain(tibctesting.GetChainID(0))
	defer func() { ethtypes.VerifSkipSeal = false }()

	rep.Constants = map[string]string{
		"KeyClientStorePrefix":           string(host.KeyClientStorePrefix),
		"KeyClientState":                 host.KeyClientState,
		"KeyConsensusStatePrefix":        host.KeyConsensusStatePrefix,
		"KeyProcessedTime":               string(ibctmtypes.KeyProcessedTime),
		"KeyIterateConsensusStatePrefix": ibctmtypes.KeyIterateConsensusStatePrefix,
		"PrefixKeyRecentSingers":         bsctypes.PrefixKeyRecentSingers,
		"PrefixPendingValidators":        bsctypes.PrefixPendingValidators,
		"KeyIndexEthHeaderPrefix":        ethtypes.KeyIndexEthHeaderPrefix,
		"KeyMainRootPrefix":              ethtypes.KeyMainRootPrefix,
		"KeyRelayers":                    clienttypes.KeyRelayers,
		"KeyClientName":                  clienttypes.KeyClientName,
		"RoutingRulesKey":                string(host.RoutingRulesKey()),
		"KeyNextSeqSendPrefix":           host.KeyNextSeqSendPrefix,
		"KeyNextSeqRecvPrefix":           host.KeyNextSeqRecvPrefix,
		"KeyNextSeqAckPrefix":            host.KeyNextSeqAckPrefix,
		"KeyPacketCommitmentPrefix":      host.KeyPacketCommitmentPrefix,
		"KeyPacketAckPrefix":             host.KeyPacketAckPrefix,
		"KeyPacketReceiptPrefix":         host.KeyPacketReceiptPrefix,
		"KeyCleanPacketCommitmentPrefix": host.KeyCleanPacketCommitmentPrefix,
		"MaxAckSeqKey(a,b)":              string(host.MaxAckSeqKey("a", "b")),
	}
	want := map[string]string{"KeyClientStorePrefix": "clients", "KeyClientState": "clientState", "KeyConsensusStatePrefix": "consensusStates",
		"KeyProcessedTime": "/processedTime", "KeyIterateConsensusStatePrefix": "iterateConsensusStates", "PrefixKeyRecentSingers": "recentSingers",
		"PrefixPendingValidators": "pendingValidators", "KeyIndexEthHeaderPrefix": "ethHeaderIndex", "KeyMainRootPrefix": "ethRootMain",
		"KeyRelayers": "relayers", "KeyClientName": "chainName", "RoutingRulesKey": "Routing/Rules", "KeyNextSeqSendPrefix": "nextSequenceSend",
		"KeyNextSeqRecvPrefix": "nextSequenceRecv", "KeyNextSeqAckPrefix": "nextSequenceAck", "KeyPacketCommitmentPrefix": "commitments",
		"KeyPacketAckPrefix": "acks", "KeyPacketReceiptPrefix": "receipts", "KeyCleanPacketCommitmentPrefix": "clean", "MaxAckSeqKey(a,b)": "maxAckSeq/a/b"}
	for _, k := range sortedKeys(want) {
		if rep.Constants[k] != want[k] {
			rep.Fail("C16:constant-changed", "store key constant "+k+" differs from the model's", rep.Constants[k])
		}
	}

	c16Directed(e)
	c16ForeignClients(e)
	c16Synthetic(e)
	c16Twins(e)

	sort.Strings(rep.Notes)
	e.flushCases()
	cs.Write(t, out)
	rep.Write(t, out)
}
