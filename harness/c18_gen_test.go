package harness

import (
	"encoding/binary"
	"encoding/json"
	"fmt"
	"math/big"
	"math/rand"
	"os"
	"path/filepath"
	"reflect"
	"runtime"
	"sort"

	"github.com/ethereum/go-ethereum/common"
	"github.com/ethereum/go-ethereum/consensus/ethash"
	"github.com/ethereum/go-ethereum/consensus/misc"
	gethtypes "github.com/ethereum/go-ethereum/core/types"

	eth "github.com/bianjieai/tibc-go/modules/tibc/light-clients/09-eth/types"
)

// ---- header construction (go-ethereum's calculators, not the code under test) -------------

var c18Ctr uint64

func c18FreshRoot() common.Hash {
	c18Ctr++
	var b [32]byte
	b[0] = 0xc1
	binary.BigEndian.PutUint64(b[24:], c18Ctr)
	return common.BytesToHash(b[:])
}

var c18SomeUncles = common.HexToHash("0x7777777777777777777777777777777777777777777777777777777777777777")

type c18G struct {
	Num      uint64
	Time     uint64
	GasLimit uint64
	GasUsed  uint64
	Diff     *big.Int
	BaseFee  *big.Int
	Uncles   bool
}

func c18Genesis(g c18G) *gethtypes.Header {
	h := &gethtypes.Header{UncleHash: gethtypes.EmptyUncleHash, Number: new(big.Int).SetUint64(g.Num), GasLimit: g.GasLimit, GasUsed: g.GasUsed,
		Time: g.Time, Difficulty: g.Diff, BaseFee: g.BaseFee, Root: c18FreshRoot(), Extra: []byte("h0")}
	if g.Uncles {
		h.UncleHash = c18SomeUncles
	}
	return h
}

func c18DefaultGenesis(num, t uint64) *gethtypes.Header {
	return c18Genesis(c18G{Num: num, Time: t, GasLimit: 30000000, GasUsed: 15000000, Diff: big.NewInt(9000000000000000), BaseFee: big.NewInt(50000000000)})
}

// a valid child of p: time = p.Time+dt, the given gas figures (gasLimit 0 = parent's), fresh root
func c18Child(p *gethtypes.Header, dt, gasUsed, gasLimit uint64, uncles bool) *gethtypes.Header {
	if gasLimit == 0 {
		gasLimit = p.GasLimit
	}
	if gasUsed > gasLimit {
		gasUsed = gasLimit
	}
	h := &gethtypes.Header{ParentHash: p.Hash(), UncleHash: gethtypes.EmptyUncleHash, Root: c18FreshRoot(),
		Number: new(big.Int).Add(p.Number, big.NewInt(1)), GasLimit: gasLimit, GasUsed: gasUsed, Time: p.Time + dt}
	if uncles {
		h.UncleHash = c18SomeUncles
	}
	c18Recalc(h, p)
	return h
}

// recompute the dependent fields of h from its parent p (base fee, difficulty)
func c18Recalc(h, p *gethtypes.Header) {
	func() {
		defer func() {
			if recover() != nil {
				h.BaseFee = big.NewInt(7)
			}
		}()
		h.BaseFee = misc.CalcBaseFee(c18Cfg, p)
	}()
	h.Difficulty = ethash.CalcDifficulty(c18Cfg, h.Time, p)
}

func c18Copy(h *gethtypes.Header) *gethtypes.Header { return gethtypes.CopyHeader(h) }

const c18T0 = uint64(1700000000)

// ---- family: recorded mainnet headers, seal verified for real --------------------------------

func c18RepoDir() string {
	f, _ := runtime.FuncForPC(reflect.ValueOf(eth.EthHeaderIndexKey).Pointer()).FileLine(0)
	return filepath.Dir(f)
}

func c18Mainnet(e *c18Env) {
	bz, err := os.ReadFile(filepath.Join(c18RepoDir(), "testdata", "update_headers.json"))
	if err != nil {
		e.t.Fatalf("recorded headers: %v", err)
	}
	var hs []*eth.EthHeader
	if err := json.Unmarshal(bz, &hs); err != nil {
		e.t.Fatal(err)
	}
	n := 3
	if envTier() == "thorough" {
		n = len(hs)
	}
	conv := func(x *eth.EthHeader) *eth.Header { r := x.ToHeader(); return &r }
	h := e.newHist("mainnet", conv(hs[0]), 200000, hs[len(hs)-1].Time+100)
	for i := 1; i < n; i++ {
		if i == 2 || i == 5 {
			bad := *hs[i]
			bad.Nonce = gethtypes.EncodeNonce(bad.Nonce.Uint64() ^ 1)
			h.submit(fmt.Sprintf("mainnet-corrupt-nonce#%d", i), conv(&bad), false, false)
			bad = *hs[i]
			bad.MixDigest[5] ^= 0x10
			h.submit(fmt.Sprintf("mainnet-corrupt-mix#%d", i), conv(&bad), false, false)
		}
		h.submit(fmt.Sprintf("mainnet-genuine#%d", i), conv(hs[i]), true, false)
		h.submit(fmt.Sprintf("mainnet-duplicate#%d", i), conv(hs[i]), true, false)
	}
	// a genuine header whose parent is not the latest but an older stored one cannot exist in the
	// recording; the remaining recorded header with an unknown parent:
	if n+1 < len(hs) {
		h.submit("mainnet-parent-unknown", conv(hs[n+1]), true, false)
	}
	h.finish()
}

// ---- family: directed single-field perturbations ----------------------------------------------

type c18Scn struct {
	h      *c18Hist
	g0     *gethtypes.Header
	a1, a2 *gethtypes.Header
}

// h0 - a1 - a2 (latest), block time well after a2
func (e *c18Env) scenario(label string, g0 *gethtypes.Header, rev uint64) *c18Scn {
	h := e.newHist(label, c18FromGeth(g0, rev), 1000000, g0.Time+5000)
	s := &c18Scn{h: h, g0: g0}
	s.a1 = c18Child(g0, 13, g0.GasLimit/2, 0, false)
	s.a2 = c18Child(s.a1, 13, g0.GasLimit/3, 0, false)
	h.submit("base-a1", c18FromGeth(s.a1, rev), true, true)
	h.submit("base-a2", c18FromGeth(s.a2, rev), true, true)
	return s
}

func (s *c18Scn) sub(tag string, g *gethtypes.Header) bool {
	return s.h.submit(tag, c18FromGeth(g, s.h.h0.Height.RevisionNumber), true, true)
}

func c18Directed(e *c18Env) {
	def := func() *gethtypes.Header { return c18DefaultGenesis(9800000, c18T0) }

	// parent lookup
	{
		s := e.scenario("dir-parent", def(), 0)
		c := c18Child(s.a2, 13, 1000, 0, false)
		x := c18Copy(c)
		x.ParentHash = common.HexToHash("0xdeadbeef")
		s.sub("parent-random", x)
		x = c18Copy(c)
		x.ParentHash = s.a1.Hash()
		s.sub("parent-is-grandparent-fields-of-child-of-a2", x)
		x = c18Copy(c)
		x.Number = new(big.Int).Add(c.Number, big.NewInt(1))
		s.sub("number+1", x)
		x = c18Copy(c)
		x.Number = new(big.Int).Sub(c.Number, big.NewInt(1))
		s.sub("number-1", x)
		x = c18Copy(c)
		x.Number = big.NewInt(0)
		s.sub("number-0", x)
		x = c18Copy(c)
		x.ParentHash = c.Hash()
		s.sub("parent-is-self-like", x)
		// child of an unknown (never submitted) header
		u := c18Child(s.a2, 13, 1000, 0, false)
		s.sub("child-of-unsubmitted", c18Child(u, 13, 1000, 0, false))
		s.sub("valid-child", c)
		s.sub("valid-child-of-a1(fork)", c18Child(s.a1, 14, 1000, 0, false))
		s.sub("valid-child-of-h0(fork)", c18Child(s.g0, 15, 1000, 0, false))
		s.h.finish()
	}
	// duplicates
	{
		s := e.scenario("dir-duplicate", def(), 0)
		s.sub("dup-latest", s.a2)
		s.sub("dup-a1", s.a1)
		s.sub("dup-initial", s.g0)
		c := c18Child(s.a2, 13, 1000, 0, false)
		s.sub("valid-child", c)
		s.sub("dup-child", c)
		b := c18Child(s.a1, 20, 1000, 0, false)
		s.sub("fork-b2", b)
		s.sub("dup-fork-b2", b)
		s.sub("dup-abandoned-child", c)
		s.h.finish()
	}
	// timestamp vs parent
	{
		s := e.scenario("dir-time-parent", def(), 0)
		for _, d := range []int64{-1, 0, 1, 2} {
			x := c18Child(s.a2, 5, 1000, 0, false)
			x.Time = uint64(int64(s.a2.Time) + d)
			x.Difficulty = ethash.CalcDifficulty(c18Cfg, x.Time, s.a2)
			s.sub(fmt.Sprintf("time=parent%+d", d), x)
		}
		s.h.finish()
	}
	// timestamp vs block time
	{
		s := e.scenario("dir-time-future", def(), 0)
		for _, d := range []uint64{16, 15, 14} {
			x := c18Child(s.a2, 100, 1000, 0, false)
			s.h.now = x.Time - d // header time = now + d
			s.sub(fmt.Sprintf("time=now+%d", d), x)
		}
		s.h.now = s.a2.Time + 50 - 15
		x := c18Child(s.a2, 51, 1000, 0, false)
		s.sub("time=now+16(b)", x)
		s.h.finish()
	}
	// gas limit bound around parent/1024
	{
		s := e.scenario("dir-gas-limit", def(), 0)
		p := s.a2.GasLimit
		lim := p / 1024
		for _, d := range []int64{int64(lim) - 1, int64(lim), int64(lim) + 1, -(int64(lim) - 1), -int64(lim), -(int64(lim) + 1), 0, 1, -1} {
			x := c18Child(s.a2, 13, 1000, uint64(int64(p)+d), false)
			s.sub(fmt.Sprintf("gaslimit=parent%+d(limit %d)", d, lim), x)
		}
		s.h.finish()
	}
	// minimum gas limit 5000 (only reachable below an initial header with a tiny gas limit)
	for _, p := range []uint64{5002, 5000, 5120, 1023, 1} {
		g := c18Genesis(c18G{Num: 9800000, Time: c18T0, GasLimit: p, GasUsed: p / 2, Diff: big.NewInt(9000000000000000), BaseFee: big.NewInt(1000)})
		h := e.newHist(fmt.Sprintf("dir-gas-min-%d", p), c18FromGeth(g, 0), 1000000, c18T0+5000)
		for _, gl := range []uint64{4998, 4999, 5000, 5001, p, p + 1, p + 4, p + 5} {
			if gl == 0 {
				continue
			}
			h.submit(fmt.Sprintf("gaslimit=%d(parent %d)", gl, p), c18FromGeth(c18Child(g, 13, gl/2, gl, false), 0), true, true)
		}
		h.finish()
	}
	// ValidateBasic: gas limit cap, gas used, extra data, difficulty with zero low 64 bits
	{
		g := c18Genesis(c18G{Num: 9800000, Time: c18T0, GasLimit: 0x7fffffffffffffff, GasUsed: 1000, Diff: big.NewInt(9000000000000000), BaseFee: big.NewInt(1000)})
		h := e.newHist("dir-basic-gascap", c18FromGeth(g, 0), 1000000, c18T0+5000)
		h.submit("gaslimit=2^63", c18FromGeth(c18Child(g, 13, 1000, 0x8000000000000000, false), 0), true, true)
		h.submit("gaslimit=2^63+5", c18FromGeth(c18Child(g, 13, 1000, 0x8000000000000005, false), 0), true, true)
		h.submit("gaslimit=2^63-1", c18FromGeth(c18Child(g, 13, 1000, 0x7fffffffffffffff, false), 0), true, true)
		h.submit("gaslimit=2^63-2", c18FromGeth(c18Child(g, 13, 1000, 0x7ffffffffffffffe, false), 0), true, true)
		h.finish()

		s := e.scenario("dir-basic", def(), 0)
		x := c18Child(s.a2, 13, 0, 0, false)
		x.GasUsed = x.GasLimit + 1
		s.sub("gasused=limit+1", x)
		x = c18Child(s.a2, 13, 0, 0, false)
		x.GasUsed = x.GasLimit
		s.sub("gasused=limit", x)
		x = c18Child(s.a2, 13, 1000, 0, false)
		x.Extra = make([]byte, 33)
		s.sub("extra=33", x)
		x = c18Child(s.a2, 13, 1000, 0, false)
		x.Extra = make([]byte, 32)
		s.sub("extra=32", x)
		for _, bad := range []string{"", "abc", "0x10", "1_000", "1e9", " 5"} {
			y := c18FromGeth(c18Child(s.a2, 13, 1000, 0, false), 0)
			y.Difficulty = bad
			s.h.submit("difficulty-string="+fmt.Sprintf("%q", bad), y, true, true)
			y = c18FromGeth(c18Child(s.a2, 13, 1000, 0, false), 0)
			y.BaseFee = bad
			s.h.submit("basefee-string="+fmt.Sprintf("%q", bad), y, true, true)
		}
		y := c18FromGeth(c18Child(s.a2, 13, 1000, 0, false), 0)
		y.Difficulty = "-" + y.Difficulty
		s.h.submit("difficulty-negated", y, true, true)
		y = c18FromGeth(c18Child(s.a2, 13, 1000, 0, false), 0)
		y.BaseFee = "-" + y.BaseFee
		s.h.submit("basefee-negated", y, true, true)
		y = c18FromGeth(c18Child(s.a2, 13, 1000, 0, false), 0)
		y.Difficulty = "+" + y.Difficulty // big.Int.SetString accepts a sign: same number, same hash
		s.h.submit("difficulty-plus-sign", y, true, true)
		s.h.finish()

		// a child whose prescribed difficulty is exactly 2^64: low 64 bits zero, refused by ValidateBasic
		two64 := new(big.Int).Lsh(big.NewInt(1), 64)
		var d0 *big.Int
		for k := int64(-3000); k < 3000 && d0 == nil; k++ {
			d := new(big.Int).Div(new(big.Int).Mul(two64, big.NewInt(2048)), big.NewInt(2049))
			d.Add(d, big.NewInt(k))
			t := new(big.Int).Add(d, new(big.Int).Div(d, big.NewInt(2048)))
			if t.Cmp(two64) == 0 {
				d0 = d
			}
		}
		if d0 != nil {
			g := c18Genesis(c18G{Num: 9800000, Time: c18T0, GasLimit: 30000000, GasUsed: 15000000, Diff: d0, BaseFee: big.NewInt(1000)})
			h := e.newHist("dir-basic-difficulty-2^64", c18FromGeth(g, 0), 1000000, c18T0+5000)
			h.submit("prescribed-difficulty=2^64", c18FromGeth(c18Child(g, 5, 15000000, 0, false), 0), true, true)
			h.submit("prescribed-difficulty-below-2^64", c18FromGeth(c18Child(g, 9, 15000000, 0, false), 0), true, true)
			h.finish()
		} else {
			e.rep.Notes = append(e.rep.Notes, "no parent difficulty found whose child difficulty is exactly 2^64")
		}
	}
	// base fee
	for _, used := range []uint64{15000000, 15000001, 14999999, 30000000, 0, 20000000, 7} {
		for _, bf := range []int64{50000000000, 7, 1, 0} {
			g := c18Genesis(c18G{Num: 9800000, Time: c18T0, GasLimit: 30000000, GasUsed: used, Diff: big.NewInt(9000000000000000), BaseFee: big.NewInt(bf)})
			h := e.newHist(fmt.Sprintf("dir-basefee-used%d-bf%d", used, bf), c18FromGeth(g, 0), 1000000, c18T0+5000)
			for _, d := range []int64{-1, 1, 0} {
				x := c18Child(g, 13, 1000, 0, false)
				x.BaseFee = new(big.Int).Add(x.BaseFee, big.NewInt(d))
				h.submit(fmt.Sprintf("basefee%+d", d), c18FromGeth(x, 0), true, true)
			}
			h.finish()
		}
	}
	// odd gas limit (target = floor(limit/2)) and gas target zero
	for _, gl := range []uint64{30000001, 5001, 1, 0} {
		for _, used := range []uint64{0, 1, gl / 2, gl/2 + 1} {
			if used > gl {
				continue
			}
			g := c18Genesis(c18G{Num: 9800000, Time: c18T0, GasLimit: gl, GasUsed: used, Diff: big.NewInt(9000000000000000), BaseFee: big.NewInt(1000000)})
			h := e.newHist(fmt.Sprintf("dir-basefee-target-gl%d-used%d", gl, used), c18FromGeth(g, 0), 1000000, c18T0+5000)
			x := c18Child(g, 13, 0, gl, false)
			h.submit("child", c18FromGeth(x, 0), true, true)
			h.finish()
		}
	}
	// difficulty: time distance, uncles, clamp at -99, minimum difficulty, bomb
	for _, unc := range []bool{false, true} {
		g := c18Genesis(c18G{Num: 9800000, Time: c18T0, GasLimit: 30000000, GasUsed: 15000000, Diff: big.NewInt(9000000000000000), BaseFee: big.NewInt(1000), Uncles: unc})
		h := e.newHist(fmt.Sprintf("dir-difficulty-dt-uncles=%v", unc), c18FromGeth(g, 0), 1000000, c18T0+5000)
		for _, dt := range []uint64{1, 8, 9, 10, 17, 18, 26, 27, 890, 891, 899, 900, 908, 909, 917, 918, 2000} {
			x := c18Child(g, dt, 1000, 0, false)
			y := c18Copy(x)
			y.Difficulty = new(big.Int).Add(x.Difficulty, big.NewInt(1))
			h.submit(fmt.Sprintf("dt=%d,difficulty+1", dt), c18FromGeth(y, 0), true, true)
			y = c18Copy(x)
			y.Difficulty = new(big.Int).Sub(x.Difficulty, big.NewInt(1))
			h.submit(fmt.Sprintf("dt=%d,difficulty-1", dt), c18FromGeth(y, 0), true, true)
			h.submit(fmt.Sprintf("dt=%d", dt), c18FromGeth(x, 0), true, true)
		}
		h.finish()
	}
	for _, d := range []int64{131072, 131073, 131136, 133000, 140000, 2048, 1, 0, -5000} {
		g := c18Genesis(c18G{Num: 9800000, Time: c18T0, GasLimit: 30000000, GasUsed: 15000000, Diff: big.NewInt(d), BaseFee: big.NewInt(1000)})
		h := e.newHist(fmt.Sprintf("dir-difficulty-min-parent%d", d), c18FromGeth(g, 0), 1000000, c18T0+5000)
		for _, dt := range []uint64{5, 20, 1000} {
			x := c18Child(g, dt, 1000, 0, false)
			y := c18Copy(x)
			y.Difficulty = new(big.Int).Sub(x.Difficulty, big.NewInt(1))
			h.submit(fmt.Sprintf("dt=%d,difficulty-1", dt), c18FromGeth(y, 0), true, true)
			h.submit(fmt.Sprintf("dt=%d", dt), c18FromGeth(x, 0), true, true)
		}
		h.finish()
	}
	for _, num := range []uint64{9699997, 9699998, 9699999, 9700000, 9799998, 9799999, 9800000, 9899998, 9899999, 9900000, 9999999, 10000000, 13286181, 16000000, 1, 0} {
		g := c18Genesis(c18G{Num: num, Time: c18T0, GasLimit: 30000000, GasUsed: 15000000, Diff: big.NewInt(9000000000000000), BaseFee: big.NewInt(1000)})
		h := e.newHist(fmt.Sprintf("dir-difficulty-bomb-parent%d", num), c18FromGeth(g, 0), 1000000, c18T0+5000)
		x := c18Child(g, 13, 1000, 0, false)
		for _, d := range []int64{1, -1} {
			y := c18Copy(x)
			y.Difficulty = new(big.Int).Add(x.Difficulty, big.NewInt(d))
			h.submit(fmt.Sprintf("difficulty%+d", d), c18FromGeth(y, 0), true, true)
		}
		h.submit("child", c18FromGeth(x, 0), true, true)
		h.submit("grandchild", c18FromGeth(c18Child(x, 13, 1000, 0, false), 0), true, true)
		h.finish()
	}
	// revision number (repaired by 81967eb): a header under another revision number must be refused
	for _, rev0 := range []uint64{0, 3} {
		s := e.scenario(fmt.Sprintf("dir-revision-%d", rev0), def(), rev0)
		b1 := c18Child(s.g0, 14, 1000, 0, false)
		for _, r := range []uint64{rev0 + 1, rev0 - 1, rev0 + 2} {
			s.h.submit(fmt.Sprintf("fork-b1-rev%d", int64(r)), c18FromGeth(b1, r), true, true)
			s.h.submit(fmt.Sprintf("child-of-latest-rev%d", int64(r)), c18FromGeth(c18Child(s.a2, 13, 1000, 0, false), r), true, true)
		}
		s.sub("fork-b1-same-rev", b1)
		s.h.finish()
	}
	{ // the pre-repair witness: h0, a1, then the sibling b1 under another revision number
		g := def()
		h := e.newHist("dir-revision-witness", c18FromGeth(g, 0), 1000000, c18T0+5000)
		h.submit("a1", c18FromGeth(c18Child(g, 13, 1000, 0, false), 0), true, true)
		h.submit("b1-rev1", c18FromGeth(c18Child(g, 14, 1000, 0, false), 1), true, true)
		h.finish()
	}
	// client status: the latest consensus state must not be older than the trusting period
	{
		g := def()
		h := e.newHist("dir-status", c18FromGeth(g, 0), 1000, c18T0+5)
		a1 := c18Child(g, 13, 1000, 0, false)
		h.now = c18T0 + 1001
		h.submit("expired+1", c18FromGeth(a1, 0), true, true)
		h.now = c18T0 + 1000
		h.submit("expired+0", c18FromGeth(a1, 0), true, true)
		h.now = a1.Time + 1001
		h.submit("expired-again", c18FromGeth(c18Child(a1, 13, 1000, 0, false), 0), true, true)
		h.finish()
		// trusting period so large that timestamp + period wraps around 2^64
		h = e.newHist("dir-status-wrap", c18FromGeth(g, 0), ^uint64(0)-c18T0+10, c18T0+5)
		h.submit("wrapped-sum<now", c18FromGeth(a1, 0), true, true)
		h.now = 9
		h.submit("wrapped-sum=now", c18FromGeth(a1, 0), true, true)
		h.finish()
	}
	// initial header outside MsgCreateClient.ValidateBasic (int64 conversions in VerifyGaslimit)
	for _, gl := range []uint64{0x8000000000000005, 0xffffffffffffffff} {
		g := c18Genesis(c18G{Num: 9800000, Time: c18T0, GasLimit: gl, GasUsed: 1000, Diff: big.NewInt(9000000000000000), BaseFee: big.NewInt(1000)})
		h := e.newHist(fmt.Sprintf("dir-quirk-h0-gaslimit-%x", gl), c18FromGeth(g, 0), 1000000, c18T0+5000)
		h.quirkH0 = true
		for _, c := range []uint64{0x7fffffffffffffff, 5000, gl - 0x7fffffffffffffff, 0x7ffffffffffffff0} {
			h.submit(fmt.Sprintf("gaslimit=%x", c), c18FromGeth(c18Child(g, 13, 1000, c, false), 0), true, true)
		}
		h.finish()
	}
}

// ---- family: fork trees ------------------------------------------------------------------------------

// all interleavings of the branches that keep each branch's own order (at most max, else a seeded sample)
func c18Interleavings(r *rand.Rand, lens []int, max int) [][]int {
	var out [][]int
	var rec func(pos []int, cur []int)
	total := 0
	for _, l := range lens {
		total += l
	}
	count := 0
	rec = func(pos []int, cur []int) {
		if count > 20000 {
			return
		}
		if len(cur) == total {
			out = append(out, append([]int(nil), cur...))
			count++
			return
		}
		for b := range lens {
			if pos[b] < lens[b] {
				pos[b]++
				rec(pos, append(cur, b))
				pos[b]--
			}
		}
	}
	rec(make([]int, len(lens)), nil)
	if len(out) > max {
		r.Shuffle(len(out), func(i, j int) { out[i], out[j] = out[j], out[i] })
		out = out[:max]
	}
	return out
}

type c18Tree struct {
	g0       *gethtypes.Header
	stem     []*gethtypes.Header
	branches [][]*gethtypes.Header
}

func c18BuildTree(r *rand.Rand, num uint64, stem int, depths []int) *c18Tree {
	t := &c18Tree{g0: c18DefaultGenesis(num, c18T0)}
	p := t.g0
	for i := 0; i < stem; i++ {
		p = c18Child(p, 10+uint64(r.Intn(10)), uint64(r.Intn(30000000)), 0, r.Intn(5) == 0)
		t.stem = append(t.stem, p)
	}
	for _, d := range depths {
		q := p
		var br []*gethtypes.Header
		for i := 0; i < d; i++ {
			gl := q.GasLimit
			if r.Intn(3) == 0 {
				gl = uint64(int64(gl) + int64(r.Intn(int(gl/1024)*2-1)) - int64(gl/1024) + 1)
			}
			q = c18Child(q, 1+uint64(r.Intn(30)), uint64(r.Intn(30000000)), gl, r.Intn(5) == 0)
			br = append(br, q)
		}
		t.branches = append(t.branches, br)
	}
	return t
}

func c18Forks(e *c18Env) {
	r := newRand(1801)
	thorough := envTier() == "thorough"
	shapes := [][]int{{1, 1}, {2, 1}, {1, 2}, {2, 2}, {3, 2}, {3, 3}, {1, 4}, {4, 2}, {6, 6}, {6, 1}, {1, 6}, {1, 1, 1}, {2, 2, 2}, {3, 1, 2}, {2, 3, 3}, {6, 5, 4}}
	for si, shape := range shapes {
		max := 6
		if thorough {
			max = 120
		}
		total := 0
		for _, l := range shape {
			total += l
		}
		if total <= 4 {
			max = 30
		}
		for _, stem := range []int{0, 2} {
			if stem == 2 && !thorough && si%3 != 0 {
				continue
			}
			orders := c18Interleavings(r, shape, max)
			for oi, ord := range orders {
				t := c18BuildTree(r, 9800000+uint64(r.Intn(5))*100000, stem, shape)
				last := t.g0.Time
				for _, br := range t.branches {
					if br[len(br)-1].Time > last {
						last = br[len(br)-1].Time
					}
				}
				h := e.newHist(fmt.Sprintf("fork-%v-stem%d-order%d", shape, stem, oi), c18FromGeth(t.g0, 0), 1000000, last+1000)
				for i, x := range t.stem {
					h.submit(fmt.Sprintf("stem#%d", i), c18FromGeth(x, 0), true, true)
				}
				pos := make([]int, len(shape))
				for _, b := range ord {
					h.submit(fmt.Sprintf("branch%d#%d", b, pos[b]), c18FromGeth(t.branches[b][pos[b]], 0), true, true)
					pos[b]++
				}
				// switch back: extend every branch once more, first to last
				for b := range t.branches {
					tip := t.branches[b][len(t.branches[b])-1]
					h.submit(fmt.Sprintf("extend-branch%d", b), c18FromGeth(c18Child(tip, 7, 1000, 0, false), 0), true, true)
				}
				// and a new sibling low in the tree (fork to a lower height)
				h.submit("late-low-sibling", c18FromGeth(c18Child(t.branches[0][0], 9, 2000, 0, false), 0), true, true)
				h.finish()
			}
		}
	}
	// children before parents: refused first, accepted later
	for k := 0; k < 4; k++ {
		t := c18BuildTree(r, 9800000, 1, []int{3, 3})
		h := e.newHist(fmt.Sprintf("fork-out-of-order-%d", k), c18FromGeth(t.g0, 0), 1000000, c18T0+5000)
		var all []*gethtypes.Header
		all = append(all, t.stem...)
		all = append(all, t.branches[0]...)
		all = append(all, t.branches[1]...)
		for round := 0; round < 4; round++ {
			r.Shuffle(len(all), func(i, j int) { all[i], all[j] = all[j], all[i] })
			for i, x := range all {
				h.submit(fmt.Sprintf("shuffled-round%d#%d", round, i), c18FromGeth(x, 0), true, true)
			}
		}
		h.finish()
	}
}

// ---- family: equal state roots at one height (known finding C18:equal-root-branches) --------------------

func c18EqualRoot(e *c18Env) {
	mk := func() (g, a1, a2, b1, b2 *gethtypes.Header) {
		g = c18DefaultGenesis(9800000, c18T0)
		a1 = c18Child(g, 13, 1000, 0, false)
		a2 = c18Child(a1, 13, 1000, 0, false)
		b1 = c18Child(g, 14, 2000, 0, false)
		b2 = c18Child(b1, 14, 2000, 0, false)
		b2.Root = a2.Root // same state root at the same height, different headers
		return
	}
	{ // witness 1
		g, a1, a2, b1, b2 := mk()
		h := e.newHist("equal-root-witness-1", c18FromGeth(g, 0), 1000000, c18T0+5000)
		a3 := c18Child(a2, 13, 1000, 0, false)
		e2 := c18Child(b1, 15, 3000, 0, false)
		for i, x := range []*gethtypes.Header{a1, a2, b1, b2, a3, e2} {
			h.submit([]string{"a1", "a2", "b1", "b2(root of a2)", "a3", "e2(child of b1)"}[i], c18FromGeth(x, 0), true, true)
		}
		h.finish()
	}
	{ // witness 2 (the one proved in Coq)
		g, a1, a2, b1, b2 := mk()
		h := e.newHist("equal-root-witness-2", c18FromGeth(g, 0), 1000000, c18T0+5000)
		b3 := c18Child(b2, 13, 1000, 0, false)
		e2 := c18Child(a1, 15, 3000, 0, false)
		for i, x := range []*gethtypes.Header{b1, b2, a1, a2, b3, e2} {
			h.submit([]string{"b1", "b2", "a1", "a2(root of b2)", "b3", "e2(child of a1)"}[i], c18FromGeth(x, 0), true, true)
		}
		if os.Getenv("C18_PRINT_WITNESS") != "" {
			fmt.Println("WITNESS", fmt.Sprintf("C18 %s %d %s", h.hdrTerm(h.h0), h.trust, coqList(h.steps)))
		}
		h.finish()
	}
	// equal-root siblings directly below the initial header, then extensions in several orders
	r := newRand(1802)
	n := 6
	if envTier() == "thorough" {
		n = 80
	}
	for k := 0; k < n; k++ {
		t := c18BuildTree(r, 9800000, r.Intn(2), []int{2 + r.Intn(3), 2 + r.Intn(3), 1 + r.Intn(2)})
		// copy roots across branches at random heights
		for c := 0; c < 1+r.Intn(3); c++ {
			b1, b2 := r.Intn(3), r.Intn(3)
			d := r.Intn(len(t.branches[b1]))
			if b1 != b2 && d < len(t.branches[b2]) {
				t.branches[b2][d].Root = t.branches[b1][d].Root
				for i := d + 1; i < len(t.branches[b2]); i++ { // re-link the descendants
					t.branches[b2][i].ParentHash = t.branches[b2][i-1].Hash()
				}
			}
		}
		h := e.newHist(fmt.Sprintf("equal-root-random-%d", k), c18FromGeth(t.g0, 0), 1000000, c18T0+5000)
		for i, x := range t.stem {
			h.submit(fmt.Sprintf("stem#%d", i), c18FromGeth(x, 0), true, true)
		}
		var pool []*gethtypes.Header
		for _, br := range t.branches {
			pool = append(pool, br...)
		}
		for round := 0; round < 3; round++ {
			r.Shuffle(len(pool), func(i, j int) { pool[i], pool[j] = pool[j], pool[i] })
			for i, x := range pool {
				h.submit(fmt.Sprintf("round%d#%d", round, i), c18FromGeth(x, 0), true, true)
			}
		}
		for b, br := range t.branches {
			if len(br) > 1 {
				h.submit(fmt.Sprintf("sibling-in-branch%d", b), c18FromGeth(c18Child(br[len(br)-2], 11, 500, 0, false), 0), true, true)
			}
		}
		h.finish()
	}
}

// ---- family: pruning of expired consensus states ----------------------------------------------------

func c18Pruning(e *c18Env) {
	r := newRand(1803)
	// heights ...2d 2e 2f 30 31...: the consensus-state key of a height containing the byte 0x2f is
	// skipped by the pruning iteration
	for vi, num := range []uint64{9800000, 0x95892d, 0x2f00 - 2, 0x2effff} {
		g := c18DefaultGenesis(num, c18T0)
		trust := uint64(1000)
		h := e.newHist(fmt.Sprintf("prune-%x", num), c18FromGeth(g, 0), trust, c18T0+10)
		chain := []*gethtypes.Header{g}
		var side []*gethtypes.Header
		for i := 0; i < 12; i++ {
			p := chain[len(chain)-1]
			x := c18Child(p, 200, 1000, 0, false)
			h.now = x.Time + 5
			h.submit(fmt.Sprintf("main#%d", i), c18FromGeth(x, 0), true, true)
			chain = append(chain, x)
			if i%3 == 1 {
				sb := c18Child(p, 201, 2000, 0, false)
				side = append(side, sb)
				h.submit(fmt.Sprintf("side-of#%d", i), c18FromGeth(sb, 0), true, true)
				h.submit(fmt.Sprintf("back-to-main#%d", i), c18FromGeth(x, 0), true, true) // duplicate: refused
			}
		}
		// forks from the pruned and the unpruned region, resubmission of pruned headers, children of
		// side-branch headers; newest first (an accepted old header becomes the latest one and the
		// client expires: everything after it is refused, so the old ones come last)
		type act struct {
			tag string
			x   *gethtypes.Header
		}
		var acts []act
		for i := range chain {
			if i == 0 {
				continue
			}
			acts = append(acts, act{fmt.Sprintf("late-sibling-of-main#%d", i-1), c18Child(chain[i-1], 150+uint64(vi), 3000, 0, false)})
		}
		for i, x := range chain {
			acts = append(acts, act{fmt.Sprintf("resubmit-main#%d", i-1), x})
		}
		for i, x := range side {
			acts = append(acts, act{fmt.Sprintf("child-of-side#%d", i), c18Child(x, 100, 1, 0, false)})
		}
		sort.SliceStable(acts, func(i, j int) bool { return acts[i].x.Time > acts[j].x.Time })
		last := chain[len(chain)-1]
		h.now = last.Time + 5
		for _, a := range acts {
			h.submit(a.tag, c18FromGeth(a.x, 0), true, true)
		}
		h.submit("extend-main", c18FromGeth(c18Child(last, 3, 1, 0, false), 0), true, true)
		h.finish()
	}
	// exact expiry boundary of the earliest consensus state: timestamp + trusting period = block time
	// is not yet expired, one second later it is pruned
	{
		g := c18DefaultGenesis(9800000, c18T0)
		h := e.newHist("prune-boundary", c18FromGeth(g, 0), 100, c18T0+50)
		a1 := c18Child(g, 10, 1000, 0, false)
		a2 := c18Child(a1, 10, 1000, 0, false)
		a3 := c18Child(a2, 10, 1000, 0, false)
		a4 := c18Child(a3, 80, 1000, 0, false)
		b1 := c18Child(g, 11, 2000, 0, false)
		h.submit("a1", c18FromGeth(a1, 0), true, true)
		h.now = c18T0 + 100
		h.submit("a2(earliest expires exactly now)", c18FromGeth(a2, 0), true, true)
		h.submit("b1(child of the unpruned initial header)", c18FromGeth(b1, 0), true, true)
		h.submit("a3(back)", c18FromGeth(a3, 0), true, true)
		h.now = c18T0 + 101
		h.submit("a4(earliest expired one second ago)", c18FromGeth(a4, 0), true, true)
		h.submit("c1(child of the pruned initial header)", c18FromGeth(c18Child(g, 12, 3000, 0, false), 0), true, true)
		h.submit("b2(fork below the pruned header)", c18FromGeth(c18Child(b1, 70, 3000, 0, false), 0), true, true)
		h.finish()
	}
	// random expiry histories
	n := 6
	if envTier() == "thorough" {
		n = 120
	}
	for k := 0; k < n; k++ {
		num := []uint64{9800000, 0x95892d, 0x2efd, 12345678}[r.Intn(4)]
		g := c18DefaultGenesis(num, c18T0)
		trust := uint64(300 + r.Intn(1500))
		h := e.newHist(fmt.Sprintf("prune-random-%d", k), c18FromGeth(g, 0), trust, c18T0+10)
		pool := []*gethtypes.Header{g}
		tip := g
		for i := 0; i < 25; i++ {
			var p *gethtypes.Header
			switch r.Intn(6) {
			case 0, 1, 2:
				p = tip
			case 3:
				p = pool[r.Intn(len(pool))]
			default:
				lo := len(pool) - 4
				if lo < 0 {
					lo = 0
				}
				p = pool[lo+r.Intn(len(pool)-lo)]
			}
			x := c18Child(p, 30+uint64(r.Intn(300)), uint64(r.Intn(30000000)), 0, false)
			if r.Intn(3) > 0 {
				h.now = x.Time + uint64(r.Intn(20))
			} else {
				h.now += uint64(r.Intn(400))
			}
			if h.submit(fmt.Sprintf("grow#%d", i), c18FromGeth(x, 0), true, true) {
				tip = x
			}
			pool = append(pool, x)
		}
		h.finish()
	}
}

// ---- family: seeded random tree growth with a malformed stream ------------------------------------------

func c18Random(e *c18Env) {
	r := newRand(1804)
	n := 40
	steps := 30
	if envTier() == "thorough" {
		n, steps = 1200, 40
	}
	for k := 0; k < n; k++ {
		num := []uint64{9800000, 9699990, 9899990, 13286181, 100, 0x95892d}[r.Intn(6)]
		g := c18Genesis(c18G{Num: num, Time: c18T0, GasLimit: []uint64{30000000, 8000000, 5100, 12500000}[r.Intn(4)], GasUsed: 4000,
			Diff: big.NewInt([]int64{9000000000000000, 131072, 3000000, 17179869184}[r.Intn(4)]), BaseFee: big.NewInt([]int64{50000000000, 1000, 9, 0}[r.Intn(4)]), Uncles: r.Intn(4) == 0})
		h := e.newHist(fmt.Sprintf("random-%d", k), c18FromGeth(g, 0), 1000000, c18T0+10)
		pool := []*gethtypes.Header{g}
		tip := g
		for i := 0; i < steps; i++ {
			var p *gethtypes.Header
			switch r.Intn(10) {
			case 0, 1, 2, 3, 4:
				p = tip
			case 5, 6:
				p = pool[r.Intn(len(pool))]
			default:
				lo := len(pool) - 5
				if lo < 0 {
					lo = 0
				}
				p = pool[lo+r.Intn(len(pool)-lo)]
			}
			gl := p.GasLimit
			if r.Intn(2) == 0 && gl/1024 > 0 {
				d := int64(r.Intn(int(gl/1024)*2+3)) - int64(gl/1024) - 1 // mostly inside, edges outside the bound
				if int64(gl)+d > 0 {
					gl = uint64(int64(gl) + d)
				}
			}
			used := uint64(r.Int63n(int64(gl) + 1))
			switch r.Intn(6) {
			case 0:
				used = gl / 2
			case 1:
				used = gl/2 + 1
			}
			dt := []uint64{1, 2, 8, 9, 10, 13, 18, 40, 120, 900, 1000}[r.Intn(11)]
			x := c18Child(p, dt, used, gl, r.Intn(6) == 0)
			h.now = x.Time + uint64(r.Intn(50))
			if r.Intn(10) == 0 {
				h.now = x.Time - 15 - uint64(r.Intn(3)) + 1 // around the future bound
			}
			tag := "valid"
			switch r.Intn(14) {
			case 0:
				x.Difficulty = new(big.Int).Add(x.Difficulty, big.NewInt(int64(r.Intn(3))-1))
				tag = "difficulty-jitter"
			case 1:
				x.BaseFee = new(big.Int).Add(x.BaseFee, big.NewInt(int64(r.Intn(3))-1))
				tag = "basefee-jitter"
			case 2:
				x.Time = p.Time + uint64(r.Intn(2)) // 0 or 1 after the parent, difficulty left as for dt
				tag = "time-edit"
			case 3:
				x.ParentHash[r.Intn(32)] ^= 1
				tag = "parent-bit"
			case 4:
				x.Number = new(big.Int).Add(x.Number, big.NewInt(int64(r.Intn(3))-1))
				tag = "number-jitter"
			case 5:
				if len(pool) > 1 {
					x = pool[r.Intn(len(pool))]
					tag = "resubmit"
				}
			case 6:
				x.GasUsed = x.GasLimit + uint64(r.Intn(2))
				tag = "gasused-edge"
			}
			if h.submit(fmt.Sprintf("%s#%d", tag, i), c18FromGeth(x, 0), true, true) {
				tip = x
			}
			if tag == "valid" || r.Intn(2) == 0 {
				pool = append(pool, x)
			}
		}
		h.finish()
	}
}
