package harness

// Token-level generators and implementation-side oracles (C04, C05, C06, C19, C11 end to end).

import (
	"fmt"
	"math/rand"
	"strings"
	"testing"
)

// ---- global accounting over all chains ------------------------------------------------------

type flight struct {
	P       Pkt
	Mod     string // NFT / MT
	Class   string // full class path carried
	ID      string
	Amount  uint64
	Sender  string
	SrcIdx  int
	Settled bool // delivered successfully or refunded
	// sender's holding before the send (C06)
	PreOwner  string
	PreAmount uint64
	ErrAcked  bool // an error acknowledgement was recorded for it somewhere
}

type tokOracle struct {
	mtBurntDown map[string]uint64 // vouchers burnt by their holders, per escrow one hop back
	h       *AppH
	flights []*flight
	// native NFTs minted by users and not burned: origin chain, class, id
	natives map[string]bool // "i|class|id"
	burned  map[string]bool
	// native MT: minted - burned per "i|class|id"
	mtMinted map[string]uint64
	fails    []OracleFailure
	odd      bool // a native class containing '/' was issued in this history (finding D4)
}

func newTokOracle(h *AppH) *tokOracle {
	return &tokOracle{h: h, natives: map[string]bool{}, burned: map[string]bool{}, mtMinted: map[string]uint64{}}
}

func (o *tokOracle) fail(sig, what string, in any) {
	if o.odd && (strings.HasPrefix(sig, "C04:") || strings.HasPrefix(sig, "C06:")) {
		// with a native class that contains '/', class paths are ambiguous: every
		// token-accounting failure in such a history belongs to the recorded finding D4
		what = "[history with a native NFT class containing '/'] " + what
		if strings.HasPrefix(sig, "C06:") {
			sig = "C06:native-class-with-slash"
		} else {
			sig = "C04:native-class-with-slash"
		}
	}
	o.fails = append(o.fails, OracleFailure{sig, what, in})
}

// basePath splits a model class ("tibc-nft/A/B/kitty" or native) into (path chains, base); for
// native classes the path is empty
func splitClass(mod, class string) (chains []string, base string, voucher bool) {
	pfx := "tibc-" + strings.ToLower(mod) + "/"
	if !strings.HasPrefix(class, pfx) {
		return nil, class, false
	}
	parts := strings.Split(class[len(pfx):], "/")
	return parts[:len(parts)-1], parts[len(parts)-1], true
}

func suspicious(class string) bool { // native classes that look like paths (finding D4)
	return strings.Contains(class, "/")
}

// checkNFT: every native NFT has exactly one holder (user on some chain, or a live packet)
func (o *tokOracle) checkNFT(step int) {
	h := o.h
	esc := h.nftEscrow()
	// collect user-held representations per (origin, base, id)
	type rep struct{ where string }
	held := map[string][]string{}
	for x := range h.chains {
		l := h.Ledger(x)
		for _, t := range l.NftTokens {
			if t.Owner == esc {
				continue
			}
			chains, base, voucher := splitClass("NFT", t.Class)
			origin := h.names[x]
			if voucher {
				if len(chains) == 0 || chains[len(chains)-1] != h.names[x] {
					o.fail("C04:voucher-on-wrong-chain", "a voucher whose path does not end at the chain holding it", map[string]any{"step": step, "chain": x, "token": t})
					continue
				}
				origin = chains[0]
			}
			k := origin + "|" + base + "|" + t.ID
			held[k] = append(held[k], fmt.Sprintf("%s:%s owner=%s", h.names[x], t.Class, t.Owner))
		}
	}
	inflight := map[string]int{}
	for _, f := range o.flights {
		if f.Mod != "NFT" || f.Settled {
			continue
		}
		chains, base, voucher := splitClass("NFT", "tibc-"+f.Class)
		origin := f.P.Src
		if voucher {
			origin = chains[0]
		} else {
			base = f.Class
		}
		inflight[origin+"|"+base+"|"+f.ID]++
	}
	for k := range o.natives {
		if o.burned[k] {
			continue
		}
		parts := strings.SplitN(k, "|", 3)
		key := h.names[atoi(parts[0])] + "|" + parts[1] + "|" + parts[2]
		n := len(held[key]) + inflight[key]
		if n != 1 {
			sig := "C04:holder-count"
			if suspicious(parts[1]) {
				sig = "C04:native-class-with-slash"
			}
			o.fail(sig, fmt.Sprintf("native NFT %s has %d holders (user holdings %v, in flight %d)", key, n, held[key], inflight[key]),
				map[string]any{"step": step, "token": key, "holders": held[key], "in_flight": inflight[key]})
		}
	}
	// a held representation that matches no native token
	for k, hs := range held {
		parts := strings.SplitN(k, "|", 3)
		oi := h.idx(parts[0])
		nk := fmt.Sprintf("%d|%s|%s", oi, parts[1], parts[2])
		if oi < 0 || !o.natives[nk] || o.burned[nk] {
			sig := "C04:unbacked-token"
			if suspicious(parts[1]) || strings.HasPrefix(parts[1], "nft") {
				sig = "C04:native-class-with-slash"
			}
			o.fail(sig, fmt.Sprintf("token %s is held (%v) but no such native NFT is live", k, hs), map[string]any{"step": step, "token": k, "holders": hs})
		}
	}
}

func atoi(s string) int { var n int; fmt.Sscanf(s, "%d", &n); return n }

// checkMT: user-held units over all chains + in-flight units = minted - burned
func (o *tokOracle) checkMT(step int) {
	h := o.h
	esc := h.mtEscrow()
	held := map[string]uint64{}
	for x := range h.chains {
		l := h.Ledger(x)
		for _, b := range l.MtBal {
			if b.Owner == esc {
				continue
			}
			chains, base, voucher := splitClass("MT", b.Class)
			origin := h.names[x]
			if voucher {
				origin = chains[0]
			}
			held[origin+"|"+base+"|"+b.ID] += b.Amount
		}
		// per chain: supply = sum of balances
		sum := map[string]uint64{}
		for _, b := range l.MtBal {
			sum[b.Class+"|"+b.ID] += b.Amount
		}
		for _, s := range l.MtSupply {
			if sum[s.Class+"|"+s.ID] != s.Amount {
				o.fail("C05:supply-ne-balances", fmt.Sprintf("on %s supply of %s/%s is %d but balances sum to %d", h.names[x], s.Class, s.ID, s.Amount, sum[s.Class+"|"+s.ID]),
					map[string]any{"step": step, "chain": x, "class": s.Class, "id": s.ID})
			}
		}
	}
	for _, f := range o.flights {
		if f.Mod != "MT" || f.Settled {
			continue
		}
		chains, base, voucher := splitClass("MT", "tibc-"+f.Class)
		origin := f.P.Src
		if voucher {
			origin = chains[0]
		} else {
			base = f.Class
		}
		held[origin+"|"+base+"|"+f.ID] += f.Amount
	}
	// escrow on X of a class = vouchers of that class one hop further on, over all chains
	// (evaluated when no MT packet is in flight, so that the in-flight term is zero)
	inflight := false
	for _, f := range o.flights {
		if f.Mod == "MT" && !f.Settled {
			inflight = true
		}
	}
	if !inflight {
		escrow := map[string]uint64{}
		down := map[string]uint64{}
		for x := range h.chains {
			l := h.Ledger(x)
			for _, b := range l.MtBal {
				if b.Owner == esc {
					escrow[h.names[x]+"|"+b.Class+"|"+b.ID] += b.Amount
				}
			}
			for _, sp := range l.MtSupply {
				chains, base, voucher := splitClass("MT", sp.Class)
				if !voucher || len(chains) < 2 || chains[len(chains)-1] != h.names[x] {
					continue
				}
				parent := chains[len(chains)-2]
				pclass := base
				if len(chains) > 2 {
					pclass = "tibc-mt/" + strings.Join(chains[:len(chains)-1], "/") + "/" + base
				}
				down[parent+"|"+pclass+"|"+sp.ID] += sp.Amount
			}
		}
		keys := map[string]bool{}
		for k := range escrow {
			keys[k] = true
		}
		for k := range down {
			keys[k] = true
		}
		for k := range keys {
			if escrow[k] != down[k]+o.mtBurntDown[k] {
				o.fail("C05:escrow-ne-downstream", fmt.Sprintf("escrow %s holds %d but the vouchers one hop further on amount to %d", k, escrow[k], down[k]),
					map[string]any{"step": step, "escrow": k, "held": escrow[k], "downstream": down[k]})
			}
		}
	}
	for k, minted := range o.mtMinted {
		parts := strings.SplitN(k, "|", 3)
		key := h.names[atoi(parts[0])] + "|" + parts[1] + "|" + parts[2]
		if held[key] != minted {
			o.fail("C05:units-not-conserved", fmt.Sprintf("native MT %s: minted-burned %d but user-held + in-flight %d", key, minted, held[key]),
				map[string]any{"step": step, "token": key, "minted": minted, "held": held[key]})
		}
	}
}

// ---- relaying with bookkeeping -----------------------------------------------------------------

// settle relays flight f completely and updates the bookkeeping; checks C06 on refunds and C19 on
// error-acknowledged receives
func (o *tokOracle) settle(f *flight) {
	h := o.h
	p := f.P
	s, d, rel := h.idx(p.Src), h.idx(p.Dst), h.idx(p.Relay)
	if s < 0 || d < 0 {
		return
	}
	hop := func(at, from int) (bool, string) {
		h.UpdateClient(at, from)
		pre := h.Ledger(at)
		ok := h.Recv(at, p, ProofSpec{from, commitKey(p)}, h.latestKnown(at, from))
		ack := h.lastAck()
		if ok && ack != "" && strings.HasPrefix(modelAck(ack), "error:") {
			post := h.Ledger(at)
			if !sameTokenState(pre, post) {
				o.fail("C19:error-ack-token-effect", "a receive answered with an error acknowledgement changed ownership, balances or supplies on the receiving chain",
					map[string]any{"chain": at, "packet": p, "before": pre, "after": post})
				// C06 in the words of the property: a transfer answered with an error acknowledgement
				// leaves no token of it on the receiving side (the sender is refunded from this ack)
				o.fail("C06:failed-transfer-left-token-on-receiver", "a transfer answered with an error acknowledgement left a token (voucher or released original) on the receiving chain: after the refund the asset exists on both sides",
					map[string]any{"chain": at, "packet": p, "before": pre, "after": post})
			}
		}
		if ok && at == rel {
			// C11: no application logic on the relay chain
			post := h.Ledger(at)
			if !sameTokenState(pre, post) {
				o.fail("C11:relay-ran-app-logic", "token state of the relay chain changed while forwarding a packet", map[string]any{"chain": at, "packet": p})
			}
		}
		return ok, ack
	}
	ackHop := func(at, from int, ack string) bool {
		h.UpdateClient(at, from)
		pre := h.Ledger(at)
		ok := h.Ack(at, p, ack, ProofSpec{from, ackKey(p)}, h.latestKnown(at, from))
		if at == rel {
			post := h.Ledger(at)
			if !sameTokenState(pre, post) {
				o.fail("C11:relay-ran-app-logic", "token state of the relay chain changed while passing an acknowledgement back", map[string]any{"chain": at, "packet": p})
			}
			if !ok && strings.HasPrefix(modelAck(ack), "error:") {
				o.fail("C11:error-ack-stuck-at-relay", "the relay chain refused to pass an error acknowledgement back (application callback ran on the relay chain and failed), so the source can never refund",
					map[string]any{"chain": at, "packet": p, "err": h.Descs[len(h.Descs)-1].Err})
			}
		}
		return ok
	}
	var ack string
	var ok bool
	final := d
	if rel >= 0 {
		ok, ack = hop(rel, s)
		if !ok {
			return
		}
		if ack != "" { // refused by the relay
			final = rel
		} else {
			ok, ack = hop(d, rel)
			if !ok {
				return
			}
			if !ackHop(rel, d, ack) {
				return
			}
			final = rel
		}
	} else {
		ok, ack = hop(d, s)
		if !ok {
			return
		}
	}
	isErr := strings.HasPrefix(modelAck(ack), "error:")
	var beforeAck uint64 // what the sender holds right before the source processes the acknowledgement
	for _, b := range h.Ledger(s).MtBal {
		if f.Mod == "MT" && b.Class == f.PreOwner && b.ID == f.ID && b.Owner == f.Sender {
			beforeAck = b.Amount
		}
	}
	if !ackHop(s, final, ack) {
		if isErr {
			o.fail("C06:refund-failed", "processing the error acknowledgement on the source failed: the sender is never refunded", map[string]any{"packet": p, "err": h.Descs[len(h.Descs)-1].Err})
		}
		return
	}
	f.Settled = true
	if isErr {
		// C06: the sender holds exactly what left
		l := h.Ledger(s)
		switch f.Mod {
		case "NFT":
			got := ""
			for _, t := range l.NftTokens {
				if t.Class == f.PreOwner && t.ID == f.ID {
					got = t.Owner
				}
			}
			if got != f.Sender {
				sig := "C06:refund-not-exact"
				if suspicious(f.PreOwner) {
					sig = "C04:native-class-with-slash"
				}
				o.fail(sig, fmt.Sprintf("after the error acknowledgement %s/%s is owned by %q, not by the sender %q", f.PreOwner, f.ID, got, f.Sender), map[string]any{"packet": p})
			}
		case "MT":
			var got uint64
			for _, b := range l.MtBal {
				if b.Class == f.PreOwner && b.ID == f.ID && b.Owner == f.Sender {
					got = b.Amount
				}
			}
			// exactly the amount comes back (other transactions of the sender may lie between send and refund,
			// so the comparison is with the holding right before the acknowledgement is processed)
			if got != beforeAck+f.Amount {
				o.fail("C06:refund-not-exact", fmt.Sprintf("processing the error acknowledgement changed the sender's holding of %s/%s from %d to %d; the packet carried %d", f.PreOwner, f.ID, beforeAck, got, f.Amount), map[string]any{"packet": p})
			}
		}
	}
}

func sameTokenState(a, b Ledger) bool {
	return fmt.Sprint(a.NftTokens, a.MtSupply, a.MtBal) == fmt.Sprint(b.NftTokens, b.MtSupply, b.MtBal)
}

// trackSend registers the packet announced by the last (successful) user send
func (o *tokOracle) trackSend(i int, mod, mclass, id string, amount uint64, sender string, preAmount uint64) *flight {
	sent := o.h.lastSent()
	if len(sent) == 0 {
		return nil
	}
	p := sent[0]
	full := strings.TrimPrefix(mclass, "tibc-")
	f := &flight{P: p, Mod: mod, Class: full, ID: id, Amount: amount, Sender: sender, SrcIdx: i, PreOwner: mclass, PreAmount: preAmount}
	o.flights = append(o.flights, f)
	return f
}

// ---- random token histories --------------------------------------------------------------------------

type tokCfg struct {
	Ops      int
	NFT, MT  bool
	BadRecv  int  // percent of sends with an invalid receiver
	Relay    bool // use relayed routes
	OddClass bool // include native classes that look like paths (D4 territory)
}

func randomTokenHistory(h *AppH, o *tokOracle, r *rand.Rand, cfg tokCfg) {
	n := len(h.chains)
	nftClasses := []string{"kitty", "doggo", "nftcats"}
	if cfg.OddClass {
		nftClasses = append(nftClasses, "art/cats", "nft/"+h.names[0]+"/"+h.names[1]+"/kitty")
	}
	ids := []string{"tom", "jerry", "id3"}
	type mtNative struct {
		chain     int
		class, id string
	}
	var mts []mtNative
	if cfg.Relay {
		for i := 0; i < n; i++ {
			h.SetRules(i, []string{"*,*,*"})
		}
	}
	pickDest := func(i int) (int, string) {
		d := (i + 1 + r.Intn(n-1)) % n
		rel := ""
		if cfg.Relay && n > 2 && r.Intn(2) == 0 {
			for k := 0; k < n; k++ {
				if k != i && k != d {
					rel = h.names[k]
				}
			}
		}
		return d, rel
	}
	receiver := func(d int) string {
		if r.Intn(100) < cfg.BadRecv {
			return pick(r, []string{"not-an-address", "", " ", "kosmos1invalid"})
		}
		return h.addr(d, 1+r.Intn(h.nUsers))
	}
	for step := 0; step < cfg.Ops; step++ {
		i := r.Intn(n)
		x := r.Intn(100)
		switch {
		case cfg.NFT && x < 12: // issue + mint
			c := pick(r, nftClasses)
			k := 1 + r.Intn(h.nUsers)
			if strings.Contains(c, "/") {
				o.odd = true
			}
			h.NftIssue(i, k, c)
			id := pick(r, ids)
			if h.NftMint(i, k, c, id, "uri:"+id, 1+r.Intn(h.nUsers)) {
				o.natives[fmt.Sprintf("%d|%s|%s", i, c, id)] = true
				delete(o.burned, fmt.Sprintf("%d|%s|%s", i, c, id))
			}
		case cfg.NFT && x < 55: // act on a token some user holds on chain i
			l := h.Ledger(i)
			var cands []NftTok
			for _, t := range l.NftTokens {
				if t.Owner != h.nftEscrow() {
					cands = append(cands, t)
				}
			}
			if len(cands) == 0 {
				continue
			}
			t := cands[r.Intn(len(cands))]
			k := 0
			for u := 1; u <= h.nUsers; u++ {
				if h.addr(i, u) == t.Owner {
					k = u
				}
			}
			if k == 0 {
				continue
			}
			if r.Intn(8) == 0 {
				k = 1 + r.Intn(h.nUsers) // somebody else tries
			}
			real := h.realClass(i, "NFT", strings.TrimPrefix(t.Class, "tibc-"))
			if !strings.HasPrefix(t.Class, "tibc-") {
				real = t.Class
			}
			switch y := r.Intn(10); {
			case y < 6:
				d, rel := pickDest(i)
				if h.NftSend(i, k, real, t.ID, receiver(d), h.names[d], rel) {
					o.trackSend(i, "NFT", t.Class, t.ID, 1, t.Owner, 0)
				}
			case y < 8:
				h.NftMove(i, k, real, t.ID, 1+r.Intn(h.nUsers))
			case y == 8:
				if h.NftBurn(i, k, real, t.ID) {
					if _, _, v := splitClass("NFT", t.Class); !v {
						o.burned[fmt.Sprintf("%d|%s|%s", i, t.Class, t.ID)] = true
					} else {
						chains, base, _ := splitClass("NFT", t.Class)
						o.burned[fmt.Sprintf("%d|%s|%s", h.idx(chains[0]), base, t.ID)] = true
					}
				}
			default:
				h.NftSend(i, k, real, "nosuchid", receiver(0), h.names[(i+1)%n], "")
			}
		case cfg.MT && x < 62: // new native MT
			k := 1 + r.Intn(h.nUsers)
			cls, ok := h.MtIssue(i, k)
			if !ok {
				continue
			}
			amt := pick(r, []uint64{1, 5, 100, 1 << 63, ^uint64(0), uint64(r.Intn(1000) + 1)})
			id, ok := h.MtMintNew(i, k, cls, amt, k)
			if ok {
				mts = append(mts, mtNative{i, cls, id})
				o.mtMinted[fmt.Sprintf("%d|%s|%s", i, cls, id)] += amt
			}
		case cfg.MT && x < 90:
			l := h.Ledger(i)
			var cands []MtBal
			for _, b := range l.MtBal {
				if b.Owner != h.mtEscrow() && b.Amount > 0 {
					cands = append(cands, b)
				}
			}
			if len(cands) == 0 {
				continue
			}
			b := cands[r.Intn(len(cands))]
			k := 0
			for u := 1; u <= h.nUsers; u++ {
				if h.addr(i, u) == b.Owner {
					k = u
				}
			}
			if k == 0 {
				continue
			}
			real := b.Class
			if strings.HasPrefix(b.Class, "tibc-") {
				real = h.realClass(i, "MT", strings.TrimPrefix(b.Class, "tibc-"))
			}
			amt := b.Amount
			switch r.Intn(5) {
			case 0:
				amt = 1
			case 1:
				amt = b.Amount/2 + 1
			case 2:
				amt = b.Amount + 1 // more than held
			}
			switch y := r.Intn(10); {
			case y < 6:
				d, rel := pickDest(i)
				if h.MtSend(i, k, real, b.ID, receiver(d), h.names[d], rel, amt) {
					o.trackSend(i, "MT", b.Class, b.ID, amt, b.Owner, b.Amount)
				}
			case y < 8:
				h.MtMove(i, k, real, b.ID, amt, 1+r.Intn(h.nUsers))
			case y == 8:
				if h.MtBurn(i, k, real, b.ID, amt) {
					chains, base, v := splitClass("MT", b.Class)
					oi := i
					if v {
						oi = h.idx(chains[0])
					} else {
						base = b.Class
					}
					o.mtMinted[fmt.Sprintf("%d|%s|%s", oi, base, b.ID)] -= amt
					if v && len(chains) >= 2 { // burnt vouchers stay backed by the escrow one hop back
						pclass := base
						if len(chains) > 2 {
							pclass = "tibc-mt/" + strings.Join(chains[:len(chains)-1], "/") + "/" + base
						}
						if o.mtBurntDown == nil {
							o.mtBurntDown = map[string]uint64{}
						}
						o.mtBurntDown[chains[len(chains)-2]+"|"+pclass+"|"+b.ID] += amt
					}
				}
			default: // owner mints more of a native MT
				for _, m := range mts {
					if m.chain == i && m.class == b.Class && m.id == b.ID {
						l2 := h.chains[i].App.MtKeeper
						_ = l2
					}
				}
			}
		default: // relay a pending packet (sometimes twice)
			var pend []*flight
			for _, f := range o.flights {
				if !f.Settled {
					pend = append(pend, f)
				}
			}
			if len(pend) == 0 {
				continue
			}
			f := pend[r.Intn(len(pend))]
			o.settle(f)
			if r.Intn(4) == 0 {
				o.settle(f) // replay the whole relay sequence
				f.Settled = true
			}
		}
		if step%5 == 4 {
			o.checkNFT(step)
			o.checkMT(step)
		}
	}
	// settle everything that is still pending, then the final accounting
	for _, f := range o.flights {
		if !f.Settled {
			o.settle(f)
		}
	}
	o.checkNFT(cfg.Ops)
	o.checkMT(cfg.Ops)
}

// ---- shared driver -----------------------------------------------------------------------------------------

type appFamily struct {
	Name string
	Run  func(h *AppH, o *tokOracle)
}

func runAppProperty(t *testing.T, prop string, sigPrefixes []string, fams []appFamily, nRandom int, cfg tokCfg, rule string) {
	out := envOut(t)
	rep := newReport(prop)
	rep.Rule = rule
	cs := &CaseSet{Prop: prop, Imports: "Harness.AppNet Packet.Types Packet.Keeper Net.Net Apps.Nft Apps.Mt Apps.App", Mismatch: "app_mismatches", Shard: 1}
	finish := func(name string, h *AppH, o *tokOracle) {
		raw := make([]StepDesc, len(h.Descs))
		for i, d := range h.Descs {
			d.Dump, d.Ledger = nil, nil
			raw[i] = d
		}
		cs.Add(h.CaseTerm(), map[string]any{"family": name, "steps": briefAppSteps(h.Descs), "raw": raw})
		acc, rej := 0, 0
		for _, d := range h.Descs {
			rep.Evaluations++
			rep.Count("op:" + d.Op)
			if d.OK {
				acc++
				rep.Count("accepted:" + d.Op)
			} else {
				rej++
				rep.Count("rejected:" + d.Op)
			}
		}
		if acc > 0 && rej > 0 {
			rep.Nontrivial(fmt.Sprint(briefAppSteps(h.Descs)))
		}
		all := append(append([]OracleFailure{}, o.fails...), h.Fails...)
		all = append(all, newNetOracle(h.NetH).run()...)
		for _, f := range all {
			for _, pre := range sigPrefixes {
				if strings.HasPrefix(f.Signature, pre) {
					rep.Fail(f.Signature, f.What, map[string]any{"family": name, "failure": f.Input, "steps": briefAppSteps(h.Descs)})
				}
			}
		}
		if len(rep.Samples) < 2 {
			rep.Sample(2, map[string]any{"family": name, "steps": briefAppSteps(h.Descs)})
		}
	}
	for _, f := range fams {
		h := newAppH(t, 3)
		mesh(h.NetH)
		o := newTokOracle(h)
		f.Run(h, o)
		o.checkNFT(-1)
		o.checkMT(-1)
		finish(f.Name, h, o)
		rep.Count("family:" + f.Name)
	}
	for k := 0; k < nRandom; k++ {
		r := newRand(int64(k)*104729 + int64(len(prop))*17)
		h := newAppH(t, 3)
		mesh(h.NetH)
		o := newTokOracle(h)
		c2 := cfg
		c2.Relay = cfg.Relay && k%2 == 1
		c2.OddClass = cfg.OddClass && k%3 == 2
		randomTokenHistory(h, o, r, c2)
		finish(fmt.Sprintf("random-%d", k), h, o)
	}
	cs.Write(t, out)
	rep.Write(t, out)
}

func briefAppSteps(ds []StepDesc) []string {
	var out []string
	for _, d := range ds {
		if d.Op == "create" || d.Op == "update" {
			continue
		}
		s := fmt.Sprintf("%s@%d ok=%v", d.Op, d.Chain, d.OK)
		if len(d.Args) > 0 {
			s += " " + strings.Join(d.Args, ",")
		}
		if d.Pkt != nil {
			s += fmt.Sprintf(" pkt=%s->%s#%d relay=%q port=%s", d.Pkt.Src, d.Pkt.Dst, d.Pkt.Seq, d.Pkt.Relay, d.Pkt.Port)
		}
		if d.Ack != "" {
			s += " ack=" + d.Ack
		}
		out = append(out, s)
	}
	return out
}
