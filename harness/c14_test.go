package harness

// C14 — expired light clients are frozen out, for every client type.
//  (a) Status() of real Tendermint / BSC / ETH client states over a real client
//      store, at (timestamp, period, block time) triples around the boundary in
//      the client's own unit, with arbitrary sub-second block times;
//  (b) packet-layer histories on real chains around an expiring client
//      (receive, acknowledgement, clean, header update), compared step by step
//      with the network model.

import (
	"fmt"
	"math/big"
	"math/rand"
	"strings"
	"testing"
	"time"

	storetypes "cosmossdk.io/store/types"
	"github.com/cosmos/cosmos-sdk/codec"
	sdk "github.com/cosmos/cosmos-sdk/types"

	clienttypes "github.com/bianjieai/tibc-go/modules/tibc/core/02-client/types"
	commitmenttypes "github.com/bianjieai/tibc-go/modules/tibc/core/23-commitment/types"
	host "github.com/bianjieai/tibc-go/modules/tibc/core/24-host"
	"github.com/bianjieai/tibc-go/modules/tibc/core/exported"
	ibctmtypes "github.com/bianjieai/tibc-go/modules/tibc/light-clients/07-tendermint/types"
	bsctypes "github.com/bianjieai/tibc-go/modules/tibc/light-clients/08-bsc/types"
	ethtypes "github.com/bianjieai/tibc-go/modules/tibc/light-clients/09-eth/types"
	tibctesting "github.com/bianjieai/tibc-go/modules/tibc/testing"
)

type c14Obs struct {
	Ty     int    `json:"type"`
	HasTS  bool   `json:"has_consensus_state"`
	TS     uint64 `json:"ts"`     // client's unit (ns for 7, s for 8/9)
	Period uint64 `json:"period"` // client's unit
	S      int64  `json:"now_s"`
	NS     int64  `json:"now_ns"`
	Code   int    `json:"status"` // 0 Active 1 Expired 2 Unknown
}

func (o c14Obs) coq() string {
	return fmt.Sprintf("(StObs %d %s %d %d %d %d)", o.Ty, coqOpt(o.HasTS, coqN(o.TS)), o.Period, o.S, o.NS, o.Code)
}

func c14StatusCode(s exported.Status) int {
	switch s {
	case exported.Active:
		return 0
	case exported.Expired:
		return 1
	}
	return 2
}

// c14Eval runs the real Status() of a client of type ty
func c14Eval(ctx sdk.Context, cdc codec.BinaryCodec, store storetypes.KVStore, ty int, hasTS bool, ts, period uint64, s, ns int64) int {
	height := clienttypes.NewHeight(0, 77)
	ctx = ctx.WithBlockTime(time.Unix(s, ns).UTC())
	// clear what an earlier evaluation left
	store.Delete(host.ConsensusStateKey(height))
	var cs exported.ClientState
	var cons exported.ConsensusState
	switch ty {
	case 7:
		cs = ibctmtypes.NewClientState("chain-x", tibctesting.DefaultTrustLevel, time.Duration(period), time.Duration(period)+time.Hour,
			tibctesting.MaxClockDrift, height, commitmenttypes.GetSDKSpecs(), tibctesting.Prefix, 0)
		cons = &ibctmtypes.ConsensusState{Timestamp: time.Unix(0, int64(ts)).UTC(), Root: commitmenttypes.NewMerkleRoot([]byte("r")), NextValidatorsHash: make([]byte, 32)}
	case 8:
		cs = &bsctypes.ClientState{Header: bsctypes.Header{Height: height}, ChainId: 56, Epoch: 200, BlockInteval: 3, TrustingPeriod: period}
		cons = &bsctypes.ConsensusState{Timestamp: ts, Number: height, Root: make([]byte, 32)}
	default:
		cs = &ethtypes.ClientState{Header: ethtypes.Header{Height: height, Difficulty: "1", BaseFee: "1"}, ChainId: 1, TrustingPeriod: period}
		cons = &ethtypes.ConsensusState{Timestamp: ts, Number: height, Root: make([]byte, 32)}
	}
	if hasTS {
		store.Set(host.ConsensusStateKey(height), clienttypes.MustMarshalConsensusState(cdc, cons))
	}
	return c14StatusCode(cs.Status(ctx, store, cdc))
}

// the property as a predicate: 1 = must be Expired, 0 = must be Active, -1 = boundary (either convention)
func c14Spec(ty int, ts, period uint64, s, ns int64) int {
	now := new(big.Int)
	if ty == 7 {
		now.Mul(big.NewInt(s), big.NewInt(1000000000))
		now.Add(now, big.NewInt(ns))
	} else {
		now.SetInt64(s) // whole seconds of the block time
	}
	end := new(big.Int).Add(new(big.Int).SetUint64(ts), new(big.Int).SetUint64(period))
	switch now.Cmp(end) {
	case 1:
		return 1
	case -1:
		return 0
	}
	return -1
}

func c14Triples(r *rand.Rand, n int) []c14Obs {
	var out []c14Obs
	periods := map[int][]uint64{
		7: {1, 1000000000, 3600 * 1000000000, 1209600 * 1000000000, 999999999, 1500000000},
		8: {0, 1, 3600, 1209600, 86400},
		9: {0, 1, 3600, 1209600, 86400},
	}
	nanos := []int64{0, 1, 123, 99, 500000000, 999999999}
	base := int64(1700000000)
	for _, ty := range []int{7, 8, 9} {
		for _, p := range periods[ty] {
			for _, tsn := range nanos {
				for d := int64(-2); d <= 2; d++ {
					for _, nn := range nanos {
						var o c14Obs
						o.Ty, o.HasTS, o.Period = ty, true, p
						if ty == 7 {
							ts := base*1000000000 + tsn
							o.TS = uint64(ts)
							end := ts + int64(p) + d // boundary -2..+2 ns
							o.S, o.NS = end/1000000000, end%1000000000
							if nn != 0 { // the nanosecond field is part of the clock for Tendermint: also vary it
								o.NS = nn
							}
						} else {
							o.TS = uint64(base)
							o.S, o.NS = base+int64(p)+d, nn // boundary -2..+2 s, any sub-second part
							if tsn != 0 {
								continue
							}
						}
						out = append(out, o)
					}
				}
			}
		}
		// the newest trusted header is AHEAD of the host chain's block time (a promptly relayed header,
		// a host clock lagging by seconds): well inside the trusting period, must be Active
		for _, lag := range []int64{1, 2, 4, 60, 3600} {
			for _, p := range periods[ty][1:] {
				for _, nn := range []int64{0, 400000000, 999999999} {
					o := c14Obs{Ty: ty, HasTS: true, Period: p, S: base - lag, NS: nn}
					if ty == 7 {
						o.TS = uint64(base * 1000000000)
					} else {
						o.TS = uint64(base)
					}
					out = append(out, o)
				}
			}
		}
		out = append(out, c14Obs{Ty: ty, HasTS: false, Period: 100, S: base, NS: 5})
		// the pre-repair witnesses: 10 000 s old client with a 3 600 s period; ts=100, period=0
		out = append(out, c14Obs{Ty: ty, HasTS: true, TS: map[int]uint64{7: uint64(base-10000) * 1000000000, 8: uint64(base - 10000), 9: uint64(base - 10000)}[ty],
			Period: map[int]uint64{7: 3600 * 1000000000, 8: 3600, 9: 3600}[ty], S: base, NS: 123})
		out = append(out, c14Obs{Ty: ty, HasTS: true, TS: 100, Period: 0, S: 0, NS: 123})
		out = append(out, c14Obs{Ty: ty, HasTS: true, TS: 100, Period: 0, S: 0, NS: 99})
	}
	for i := 0; i < n; i++ {
		ty := 7 + r.Intn(3)
		o := c14Obs{Ty: ty, HasTS: r.Intn(20) != 0}
		if ty == 7 {
			ts := base*1000000000 + r.Int63n(1000000000)
			o.TS = uint64(ts)
			o.Period = uint64(1 + r.Int63n(3000000000000))
			end := ts + int64(o.Period) + r.Int63n(7) - 3
			if r.Intn(4) == 0 {
				end = ts + r.Int63n(2*int64(o.Period)+1)
			}
			o.S, o.NS = end/1000000000, end%1000000000
		} else {
			o.TS = uint64(base + r.Int63n(100000))
			o.Period = uint64(r.Int63n(2000000))
			o.S = int64(o.TS) + int64(o.Period) + r.Int63n(7) - 3
			if r.Intn(4) == 0 {
				o.S = int64(o.TS) + r.Int63n(2*int64(o.Period)+1)
			}
			o.NS = r.Int63n(1000000000)
		}
		out = append(out, o)
	}
	return out
}

// ---- packet-layer part ---------------------------------------------------------------

// expired(i, j): is chain i's client of chain j past its trusting period at the current time
// (read from the real client and consensus state; independent of the model)
func c14Expired(h *NetH, i, j int) (known bool, expired bool) {
	ci, cj := h.chains[i], h.chains[j]
	ctx := ci.GetContext()
	cs, ok := ci.App.TIBCKeeper.ClientKeeper.GetClientState(ctx, cj.ChainName)
	if !ok {
		return false, false
	}
	cons, ok := ci.App.TIBCKeeper.ClientKeeper.GetClientConsensusState(ctx, cj.ChainName, cs.GetLatestHeight())
	if !ok {
		return false, false
	}
	tm := cs.(*ibctmtypes.ClientState)
	end := int64(cons.GetTimestamp()) + tm.TrustingPeriod.Nanoseconds()
	return true, h.now() >= end
}

type c14Net struct {
	*NetH
	fails []OracleFailure
	seen  map[string]int
}

func (n *c14Net) check(op string, i, j int, ok bool, wasKnown, wasExpired bool) {
	if !wasKnown {
		return
	}
	key := fmt.Sprintf("%s:expired=%v:ok=%v", op, wasExpired, ok)
	n.seen[key]++
	if wasExpired && ok {
		n.fails = append(n.fails, OracleFailure{"C14:expired-client-used", op + " accepted on " + n.names[i] + " although its client of " + n.names[j] + " is past its trusting period",
			map[string]any{"op": op, "chain": i, "about": j, "step_index": len(n.Descs) - 1}})
	}
}

func (n *c14Net) recv(i, from int, p Pkt, height uint64) bool {
	k, e := c14Expired(n.NetH, i, from)
	ok := n.Recv(i, p, ProofSpec{from, commitKey(p)}, height)
	n.check("recv", i, from, ok, k, e)
	return ok
}
func (n *c14Net) ack(i, from int, p Pkt, ack string, height uint64) bool {
	k, e := c14Expired(n.NetH, i, from)
	ok := n.Ack(i, p, ack, ProofSpec{from, ackKey(p)}, height)
	n.check("ack", i, from, ok, k, e)
	return ok
}
func (n *c14Net) recvClean(i, from int, cp CPkt, height uint64) bool {
	k, e := c14Expired(n.NetH, i, from)
	ok := n.RecvClean(i, cp, ProofSpec{from, cleanKey(cp.Src, cp.Dst)}, height)
	n.check("recvclean", i, from, ok, k, e)
	return ok
}
func (n *c14Net) update(i, j int) bool {
	// expiry judged before the step: time only moves forward, so "expired before" implies "expired at the message"
	k, e := c14Expired(n.NetH, i, j)
	ok := n.UpdateClient(i, j)
	n.check("update", i, j, ok, k, e)
	return ok
}

const c14Period = 14 * 24 * time.Hour // tibctesting.TrustingPeriod

type c14Family struct {
	Name string
	Run  func(n *c14Net)
}

func c14Families() []c14Family {
	return []c14Family{
		{"direct-route-everything-around-expiry", func(n *c14Net) {
			A, B := n.names[0], n.names[1]
			p1 := n.sendOK(0, Pkt{1, A, B, "", "tibcmock", "~1"})
			p2 := n.sendOK(0, Pkt{2, A, B, "", "tibcmock", "~2"})
			p3 := n.sendOK(0, Pkt{3, A, B, "", "tibcmock", "~3"})
			n.update(1, 0)
			hb := n.latestKnown(1, 0)
			n.recv(1, 0, p1, hb)
			n.recv(1, 0, p2, hb)
			n.update(0, 1)
			ha := n.latestKnown(0, 1)
			n.ack(0, 1, p1, mockAck, ha)
			n.ack(0, 1, p2, mockAck, ha)
			n.Clean(0, CPkt{1, "", B, ""})
			n.update(1, 0)
			n.recvClean(1, 0, CPkt{1, A, B, ""}, n.latestKnown(1, 0)) // inside the period: accepted
			n.Clean(0, CPkt{2, "", B, ""})
			n.update(1, 0)
			hb2 := n.latestKnown(1, 0)
			n.update(0, 1)
			n.Tick(c14Period - 2*time.Minute) // still inside both trusting periods
			n.recv(1, 0, p3, hb2)
			n.update(0, 1) // A's client of B refreshed; B's client of A is not
			ha2 := n.latestKnown(0, 1)
			n.Tick(10 * time.Minute) // B's client of A is now past its period, A's client of B is not
			p4 := n.sendOK(0, Pkt{4, A, B, "", "tibcmock", "~4"})
			n.recvClean(1, 0, CPkt{2, A, B, ""}, hb2) // genuine proof, expired client: refused
			n.recv(1, 0, p4, hb2)
			n.ack(0, 1, p3, mockAck, ha2) // A's client of B is alive: accepted
			n.update(1, 0)                // refused: expired
			n.update(1, 0)
			p5 := n.sendOK(0, Pkt{5, A, B, "", "tibcmock", "~5"})
			_ = p5
			n.Tick(c14Period)
			n.ack(0, 1, p4, mockAck, ha2) // now A's client of B is expired too
			n.update(0, 1)
		}},
		{"relayed-route-expiry-at-relay-and-destination", func(n *c14Net) {
			A, B, C := n.names[0], n.names[1], n.names[2]
			n.SetRules(1, []string{"*,*,*"})
			p1 := n.sendOK(0, Pkt{1, A, C, B, "tibcmock", "r1"})
			p2 := n.sendOK(0, Pkt{2, A, C, B, "tibcmock", "r2"})
			n.update(1, 0)
			h10 := n.latestKnown(1, 0)
			n.recv(1, 0, p1, h10)
			n.update(2, 1)
			h21 := n.latestKnown(2, 1)
			n.recv(2, 1, p1, h21)
			n.update(1, 2)
			n.update(0, 1)
			n.Tick(c14Period - time.Minute)
			n.update(2, 1) // C refreshes its client of B
			n.update(0, 1)
			n.Tick(5 * time.Minute) // B's client of A and of C expired; C's client of B and A's client of B alive
			n.recv(1, 0, p2, h10)   // relay refuses: its client of the source is expired
			h12 := n.latestKnown(1, 2)
			n.ack(1, 2, p1, mockAck, h12) // relay refuses the ack: its client of the destination is expired
			n.update(1, 0)
			n.update(1, 2)
			n.Tick(c14Period)
			n.recv(2, 1, p2, n.latestKnown(2, 1))
		}},
		{"exact-boundary", func(n *c14Net) {
			A, B := n.names[0], n.names[1]
			p1 := n.sendOK(0, Pkt{1, A, B, "", "tibcmock", "b1"})
			p2 := n.sendOK(0, Pkt{2, A, B, "", "tibcmock", "b2"})
			n.update(1, 0)
			hb := n.latestKnown(1, 0)
			// bring the clock to a few seconds before the expiry of B's client of A and step over it
			ctx := n.chains[1].GetContext()
			cs, _ := n.chains[1].App.TIBCKeeper.ClientKeeper.GetClientState(ctx, A)
			cons, _ := n.chains[1].App.TIBCKeeper.ClientKeeper.GetClientConsensusState(ctx, A, cs.GetLatestHeight())
			end := int64(cons.GetTimestamp()) + c14Period.Nanoseconds()
			p3 := n.sendOK(0, Pkt{3, A, B, "", "tibcmock", "b3"})
			p4 := n.sendOK(0, Pkt{4, A, B, "", "tibcmock", "b4"})
			n.update(1, 0)
			hb = n.latestKnown(1, 0)
			cs, _ = n.chains[1].App.TIBCKeeper.ClientKeeper.GetClientState(n.chains[1].GetContext(), A)
			cons, _ = n.chains[1].App.TIBCKeeper.ClientKeeper.GetClientConsensusState(n.chains[1].GetContext(), A, cs.GetLatestHeight())
			end = int64(cons.GetTimestamp()) + c14Period.Nanoseconds()
			n.Tick(time.Duration(end-n.now()) - 12*time.Second)
			n.recv(1, 0, p1, hb) // 12 s before the expiry time; the clock then advances by 5 s per accepted message
			n.Tick(time.Duration(end-n.now()) - 5*time.Second)
			n.recv(1, 0, p2, hb) // 5 s before
			n.recv(1, 0, p3, hb) // block time == newest trusted time + trusting period: Tendermint says Expired
			n.recv(1, 0, p4, hb)
		}},
	}
}

func TestC14(t *testing.T) {
	out := envOut(t)
	rep := newReport("C14")
	rep.Rule = "status part: real Status() of Tendermint, BSC and ETH client states over a real client store at (timestamp, period, block time) triples at boundary -2..+2 in the client's own unit, every sub-second value of the block time in {0,1,99,123,5e8,999999999}, absent consensus state, the pre-repair witnesses, plus seeded random triples; packet part: histories on three real chains around an expiring Tendermint client (receive, acknowledgement, clean, header update; direct and relayed routes; the exact boundary); non-trivial = an input class with both outcomes"
	cs := &CaseSet{Prop: "C14", Imports: "Harness.C14 Clients.Status Packet.Types Packet.Keeper Net.Net", Mismatch: "c14_mismatches", Shard: 4}

	// ---- (a) status ----
	h0 := newNetH(t, 1)
	c := h0.chains[0]
	ctx, _ := c.GetContext().CacheContext()
	cdc := c.App.AppCodec()
	store := c.App.TIBCKeeper.ClientKeeper.ClientStore(ctx, "statusprobe")
	triples := c14Triples(newRand(14), tierN(2000, 60000))
	var batch []string
	var batchDesc []c14Obs
	flush := func() {
		if len(batch) == 0 {
			return
		}
		cs.Add("C14Status "+coqList(batch), map[string]any{"status_batch": batchDesc})
		batch, batchDesc = nil, nil
	}
	for _, o := range triples {
		o.Code = c14Eval(ctx, cdc, store, o.Ty, o.HasTS, o.TS, o.Period, o.S, o.NS)
		rep.Evaluations++
		rep.Count(fmt.Sprintf("status:type%d:%s", o.Ty, []string{"Active", "Expired", "Unknown"}[o.Code]))
		// oracle
		if !o.HasTS {
			if o.Code != 2 {
				rep.Fail("C14:status-without-consensus-state", "client without a consensus state at its latest height does not report Unknown", o)
			}
		} else {
			switch c14Spec(o.Ty, o.TS, o.Period, o.S, o.NS) {
			case 1:
				rep.Count(fmt.Sprintf("spec:type%d:older-than-period", o.Ty))
				if o.Code != 1 {
					rep.Fail("C14:old-client-not-expired", fmt.Sprintf("type %d client older than its trusting period does not report Expired", o.Ty), o)
				}
			case 0:
				rep.Count(fmt.Sprintf("spec:type%d:inside-period", o.Ty))
				if o.Code != 0 {
					rep.Fail("C14:live-client-not-active", fmt.Sprintf("type %d client inside its trusting period does not report Active", o.Ty), o)
				}
			default:
				rep.Count(fmt.Sprintf("spec:type%d:exact-boundary", o.Ty))
			}
			if o.Ty != 7 { // sub-second independence
				if c0 := c14Eval(ctx, cdc, store, o.Ty, o.HasTS, o.TS, o.Period, o.S, 0); c0 != o.Code {
					rep.Fail("C14:status-depends-on-subsecond", fmt.Sprintf("type %d status changes with the sub-second part of the block time", o.Ty), o)
				}
			}
		}
		rep.Nontrivial(fmt.Sprintf("status:type%d:%d", o.Ty, o.Code))
		batch = append(batch, o.coq())
		batchDesc = append(batchDesc, o)
		if len(batch) == 500 {
			flush()
		}
	}
	flush()
	rep.Sample(3, triples[0])

	// ---- (b) packet layer ----
	finish := func(name string, n *c14Net) {
		cs.Add("C14Net ("+n.CaseTerm()+")", map[string]any{"family": name, "steps": n.Descs})
		for _, d := range n.Descs {
			rep.Evaluations++
			rep.Count("op:" + d.Op)
			if d.OK {
				rep.Count("accepted:" + d.Op)
			} else {
				rep.Count("rejected:" + d.Op)
			}
		}
		for k, v := range n.seen {
			rep.Histogram["gate:"+k] += v
			rep.Nontrivial("gate:" + k)
		}
		for _, f := range n.fails {
			rep.Fail(f.Signature, f.What, map[string]any{"family": name, "failure": f.Input, "steps": briefSteps(n.Descs)})
		}
		rep.Sample(5, map[string]any{"family": name, "steps": briefSteps(n.Descs)})
	}
	for _, f := range c14Families() {
		n := &c14Net{NetH: newNetH(t, 3), seen: map[string]int{}}
		mesh(n.NetH)
		f.Run(n)
		finish(f.Name, n)
		rep.Count("family:" + f.Name)
	}
	// random histories with long ticks: each relayer message is checked against the real client's age
	nr := tierN(6, 80)
	for k := 0; k < nr; k++ {
		r := newRand(int64(k)*6151 + 14)
		n := &c14Net{NetH: newNetH(t, 3), seen: map[string]int{}}
		mesh(n.NetH)
		c14Random(n, r, 45)
		finish(fmt.Sprintf("random-%d", k), n)
	}
	rep.Constants = map[string]string{"tendermint_trusting_period_ns": fmt.Sprint(tibctesting.TrustingPeriod.Nanoseconds())}
	cs.Write(t, out)
	rep.Write(t, out)
	_ = strings.TrimSpace
}

type c14Flight struct {
	p     Pkt
	s, d  int
	stage int
}

func c14Random(n *c14Net, r *rand.Rand, ops int) {
	A, B := n.names[0], n.names[1]
	names := []string{A, B}
	seq := map[[2]int]uint64{}
	var inflight []c14Flight
	for k := 0; k < ops; k++ {
		switch x := r.Intn(12); {
		case x < 3:
			s := r.Intn(2)
			d := 1 - s
			seq[[2]int{s, d}]++
			p := Pkt{seq[[2]int{s, d}], names[s], names[d], "", "tibcmock", fmt.Sprintf("d%d", k)}
			if n.Send(s, p) {
				inflight = append(inflight, c14Flight{p, s, d, 0})
			} else {
				seq[[2]int{s, d}]--
			}
		case x < 5:
			i := r.Intn(2)
			n.update(i, 1-i)
		case x < 9 && len(inflight) > 0:
			f := &inflight[r.Intn(len(inflight))]
			if f.stage == 0 {
				if n.latestKnown(f.d, f.s) > 0 && n.recv(f.d, f.s, f.p, n.latestKnown(f.d, f.s)) {
					f.stage = 1
				}
			} else if f.stage == 1 {
				if n.latestKnown(f.s, f.d) > 0 && n.ack(f.s, f.d, f.p, mockAck, n.latestKnown(f.s, f.d)) {
					f.stage = 2
				}
			}
		case x == 9:
			n.Tick(time.Duration(r.Int63n(int64(8 * 24 * time.Hour))))
		case x == 10:
			n.Tick(time.Duration(r.Int63n(int64(time.Hour))))
		default:
			i := r.Intn(2)
			n.update(i, 1-i)
		}
	}
}
